(* C11: the DMR parser (model/DMR.v) returns, for every document rendered from an abstract spec - groups nested to any depth,
   dimensions declared at any level, interleaved declarations - exactly the declared variables with their paths, types, shapes
   (named and unnamed dimensions resolved in declaration order), fully qualified dimension names, maps and attributes. *)
From PydapV Require Import Base Quote QuoteProofs StrLemmas DDS DDSProofs DMR.
From Coq Require Import Lia.
Open Scope nat_scope.

(* ------------------------------------------------------------------ abstract documents *)
Inductive dimref := DAnon (n : nat) | DNamed (path : list chars) (name : chars).
(* one <Value>: its text, or a value= attribute *)
Inductive vsyntax := VText (t : chars) | VAttr (t : chars).
Record aspec := mkA { a_name : chars; a_type : chars; a_inline : option chars; a_values : list vsyntax }.

Inductive item :=
| IDim (name : chars) (size : nat)
| IVar (tag : chars) (name : chars) (dims : list dimref) (attrs : list aspec) (maps : list chars)
| IGroup (name : chars) (items : list item)
| IAttr (a : aspec).

Definition A (k : string) (v : chars) : chars * chars := (s2l k, v).

Definition ref_text (p : list chars) (n : chars) : chars := join [slash] ([] :: p ++ [n]).

Definition render_value (v : vsyntax) : xml :=
  match v with
  | VText t => XNode (s2l "Value") [] (Some t) []
  | VAttr t => XNode (s2l "Value") [A "value" t] None []
  end.
Definition render_attr (a : aspec) : xml :=
  XNode (s2l "Attribute")
        ([A "name" (a_name a); A "type" (a_type a)] ++ match a_inline a with Some v => [A "value" v] | None => [] end)
        None (map render_value (a_values a)).
Definition render_dim (d : dimref) : xml :=
  match d with
  | DAnon n => XNode (s2l "Dim") [A "size" (dec n)] None []
  | DNamed p n => XNode (s2l "Dim") [A "name" (ref_text p n)] None []
  end.
Definition render_map (m : chars) : xml := XNode (s2l "Map") [A "name" m] None [].

Fixpoint render_item (it : item) : xml :=
  match it with
  | IDim n s => XNode (s2l "Dimension") [A "name" n; A "size" (dec s)] None []
  | IVar tag n dims attrs maps =>
      XNode tag [A "name" n] None (map render_dim dims ++ map render_attr attrs ++ map render_map maps)
  | IGroup n its => XNode (s2l "Group") [A "name" n] None (map render_item its)
  | IAttr a => render_attr a
  end.
Definition render (dsname : chars) (items : list item) : xml :=
  XNode (s2l "Dataset") [A "dapVersion" (s2l "4.0"); A "name" dsname] None (map render_item items).

(* ------------------------------------------------------------------ what the document declares *)
Definition prefix_of (p : list chars) : chars := match p with [] => [] | _ => join [slash] ([] :: p) end.
Definition fqn (p : list chars) (n : chars) : chars := match p with [] => n | _ => join [slash] ([] :: p ++ [n]) end.

Fixpoint decl_dims_item (p : list chars) (it : item) : list (chars * nat) :=
  match it with
  | IDim n s => [(fqn p n, s)]
  | IGroup g its => flat_map (decl_dims_item (p ++ [g])) its
  | _ => []
  end.
Definition decl_dims (p : list chars) (items : list item) : list (chars * nat) := flat_map (decl_dims_item p) items.

(* the size a reference resolves to: walk the group path, find the dimension *)
Fixpoint find_dim (n : chars) (items : list item) : option nat :=
  match items with
  | [] => None
  | IDim n' s :: r => if ceq n n' then Some s else find_dim n r
  | _ :: r => find_dim n r
  end.
Fixpoint find_group (g : chars) (items : list item) : option (list item) :=
  match items with
  | [] => None
  | IGroup g' its :: r => if ceq g g' then Some its else find_group g r
  | _ :: r => find_group g r
  end.
Fixpoint spec_size (p : list chars) (n : chars) (items : list item) : option nat :=
  match p with
  | [] => find_dim n items
  | g :: p' => match find_group g items with Some its => spec_size p' n its | None => None end
  end.

Definition attr_decl (a : aspec) : chars * (option chars * list (option chars)) :=
  (a_name a, (Some (a_type a),
              (match a_inline a with Some v => [Some v] | None => [] end) ++
              map (fun v => match v with VText t => Some t | VAttr t => Some t end) (a_values a))).

Definition dim_size (root : list item) (d : dimref) : option nat :=
  match d with DAnon n => Some n | DNamed p n => spec_size p n root end.
Definition named_refs (dims : list dimref) : list chars :=
  flat_map (fun d => match d with DNamed p n => [ref_text p n] | DAnon _ => [] end) dims.

Definition var_decl (root : list item) (p : list chars) (parent : chars) (it : item) : option varrec :=
  match it with
  | IVar tag n dims attrs maps =>
      do shape <- omap_list (dim_size root) dims;
      Some (mkVar (fqn p n) tag shape (named_refs dims) (map Some maps)
                  (match p with [] => None | _ => Some (prefix_of p) end)
                  (map attr_decl attrs) parent)
  | _ => None
  end.

Section OFlat.
  Context {X Y : Type} (f : X -> option (list Y)).
  Fixpoint oflat (l : list X) : option (list Y) :=
    match l with
    | [] => Some []
    | x :: r => do a <- f x; do b <- oflat r; Some (a ++ b)
    end.
End OFlat.

Fixpoint decl_vars_item (root : list item) (p : list chars) (parent : chars) (it : item) {struct it} : option (list varrec) :=
  match it with
  | IVar tag n dims attrs maps => do v <- var_decl root p parent it; Some [v]
  | IGroup g its => oflat (decl_vars_item root (p ++ [g]) (s2l "Group")) its
  | _ => Some []
  end.
Definition decl_vars (root : list item) (p : list chars) (parent : chars) (items : list item) : option (list varrec) :=
  oflat (decl_vars_item root p parent) items.

(* ------------------------------------------------------------------ association lists without duplicate keys *)
Lemma ceq_refl a : ceq a a = true.
Proof. unfold ceq. apply String.eqb_refl. Qed.
Lemma l2s_inj a b : l2s a = l2s b -> a = b.
Proof.
  revert b; induction a as [|x a IH]; intros [|y b] H; cbn in H; try congruence.
  injection H as -> H. f_equal. apply IH, H.
Qed.
Lemma ceq_eq a b : ceq a b = true <-> a = b.
Proof. unfold ceq. rewrite String.eqb_eq. split; [apply l2s_inj|congruence]. Qed.
Lemma ceq_neq a b : ceq a b = false <-> a <> b.
Proof. rewrite <- ceq_eq. destruct (ceq a b); split; congruence. Qed.

Lemma aset_fresh {V} k (v : V) l : ~ In k (map fst l) -> aset k v l = l ++ [(k, v)].
Proof.
  induction l as [|[k' v'] l IH]; intros H; [reflexivity|]. cbn [aset].
  destruct (ceq k k') eqn:E.
  - apply ceq_eq in E. subst. exfalso. apply H. left. reflexivity.
  - rewrite IH; [reflexivity|]. intros Hin. apply H. right. exact Hin.
Qed.

Lemma aupdate_fresh {V} (u d : list (chars * V)) : NoDup (map fst (d ++ u)) -> aupdate d u = d ++ u.
Proof.
  unfold aupdate. revert d. induction u as [|[k v] u IH]; intros d H; [now rewrite app_nil_r|].
  cbn [fold_left fst snd]. rewrite aset_fresh.
  - rewrite IH; [now rewrite <- app_assoc|]. rewrite <- app_assoc. exact H.
  - rewrite map_app in H. cbn [map fst] in H. apply NoDup_remove_2 in H. intros Hin. apply H.
    apply in_or_app. left. exact Hin.
Qed.

Lemma aget_in {V} k (v : V) l : NoDup (map fst l) -> In (k, v) l -> aget k l = Some v.
Proof.
  induction l as [|[k' v'] l IH]; intros Hn Hin; [destruct Hin|]. cbn [aget].
  cbn [map fst] in Hn. inversion Hn as [|? ? Hk Hn']; subst.
  destruct Hin as [E | Hin].
  - injection E as -> ->. rewrite ceq_refl. reflexivity.
  - destruct (ceq k k') eqn:E.
    + apply ceq_eq in E. subst. exfalso. apply Hk. apply (in_map fst) in Hin. exact Hin.
    + apply IH; assumption.
Qed.

Lemma NoDup_app_l {T} (a b : list T) : NoDup (a ++ b) -> NoDup a.
Proof. induction a as [|x a IH]; intros H; [constructor|]. inversion H; subst. constructor; [|apply IH; assumption].
  intros Hin. apply H2. apply in_or_app. left. exact Hin. Qed.
Lemma NoDup_app_r {T} (a b : list T) : NoDup (a ++ b) -> NoDup b.
Proof. induction a as [|x a IH]; intros H; [exact H|]. inversion H; subst. apply IH. assumption. Qed.

(* ------------------------------------------------------------------ prefixes *)
Lemma join_cons_cons sep a b l : join sep (a :: b :: l) = a ++ sep ++ join sep (b :: l).
Proof. reflexivity. Qed.

Lemma join_snoc p n : p <> [] -> join [slash] (p ++ [n]) = join [slash] p ++ slash :: n.
Proof.
  induction p as [|a p IH]; intros Hn; [congruence|]. destruct p as [|b p].
  - reflexivity.
  - change ((a :: b :: p) ++ [n]) with (a :: (b :: p) ++ [n]).
    change ((b :: p) ++ [n]) with (b :: p ++ [n]) at 1. rewrite join_cons_cons.
    change (b :: p ++ [n]) with ((b :: p) ++ [n]). rewrite IH by discriminate.
    rewrite join_cons_cons. rewrite <- !app_assoc. reflexivity.
Qed.

Lemma prefix_snoc p g : prefix_of (p ++ [g]) = prefix_of p ++ slash :: g.
Proof.
  unfold prefix_of. destruct p as [|a p]; [reflexivity|].
  change ((a :: p) ++ [g]) with (a :: p ++ [g]).
  change ([] :: a :: p ++ [g]) with (([] :: a :: p) ++ [g]). rewrite join_snoc by discriminate. reflexivity.
Qed.

Lemma key_of_prefix p n : (match prefix_of p with [] => n | _ => prefix_of p ++ slash :: n end) = fqn p n.
Proof.
  unfold prefix_of, fqn. destruct p as [|a p]; [reflexivity|].
  change ([] :: (a :: p) ++ [n]) with (([] :: a :: p) ++ [n]). rewrite join_snoc by discriminate.
  rewrite join_cons_cons. reflexivity.
Qed.

(* ------------------------------------------------------------------ well-formed documents *)
Definition no_slash (n : chars) : bool := forallb (fun c => negb (Ascii.eqb c slash)) n.
Definition wf_short (n : chars) : bool := negb (match n with [] => true | _ => false end) && forallb legal n && no_slash n.

Fixpoint wf_item (it : item) : bool :=
  match it with
  | IDim n _ => wf_short n
  | IVar tag n _ _ _ => is_var_tag tag && wf_short n
  | IGroup g its => wf_short g && forallb wf_item its
  | IAttr _ => true
  end.

Lemma wf_short_quote n : wf_short n = true -> quote n = n.
Proof.
  unfold wf_short. intros H. apply andb_true_iff in H as [H _]. apply andb_true_iff in H as [_ H].
  unfold quote. assert (Hv : forallb verb n = true).
  { rewrite forallb_forall in *. intros c Hc. specialize (H c Hc). revert H. ascii_cases c; intros H; try reflexivity; discriminate H. }
  destruct (prefixb (s2l "dap4") n).
  - rewrite quote_body_verbatim.
    + apply firstn_skipn.
    + clear H. revert Hv. generalize 8. intros k. revert n. induction k as [|k IH]; intros [|x n] Hv; cbn [skipn]; try assumption.
      cbn [forallb] in Hv. apply andb_true_iff in Hv as [_ Hv]. apply IH, Hv.
  - apply quote_body_verbatim, Hv.
Qed.

(* ------------------------------------------------------------------ get_variables on a rendered document *)
Fixpoint var_entries_item (p : list chars) (parent : chars) (it : item) : list ventry :=
  match it with
  | IVar tag n dims attrs maps => [(fqn p n, (render_item it, parent))]
  | IGroup g its => flat_map (var_entries_item (p ++ [g]) (s2l "Group")) its
  | _ => []
  end.
Definition var_entries (p : list chars) (parent : chars) (items : list item) : list ventry :=
  flat_map (var_entries_item p parent) items.

Lemma xget_name_A n rest : aget (s2l "name") (A "name" n :: rest) = Some n.
Proof. reflexivity. Qed.

(* the elements below a variable (Dim, Attribute, Map and their Value children) contribute no variables *)
Lemma gv_value v pre : get_variables (render_value v) pre = [].
Proof. destruct v; reflexivity. Qed.

Lemma gv_go_nil_values (tag pre : chars) vs acc :
  gv_go get_variables tag pre (map render_value vs) acc = acc.
Proof.
  revert acc; induction vs as [|v vs IH]; intros acc; [reflexivity|].
  cbn [map gv_go]. assert (Ht : is_var_tag (xtag (render_value v)) = false) by (destruct v; reflexivity).
  rewrite Ht, gv_value. unfold aupdate. cbn [fold_left]. apply IH.
Qed.

Lemma gv_attr a pre : get_variables (render_attr a) pre = [].
Proof.
  unfold render_attr. cbn [get_variables app]. rewrite xget_name_A.
  change (ceq (s2l "Attribute") (s2l "Dataset")) with false. cbv iota. apply gv_go_nil_values.
Qed.
Lemma gv_dim d pre : get_variables (render_dim d) pre = [].
Proof. destruct d as [n|p n]; cbn [render_dim get_variables]; [reflexivity|]. rewrite xget_name_A. reflexivity. Qed.
Lemma gv_map m pre : get_variables (render_map m) pre = [].
Proof. cbn [render_map get_variables]. rewrite xget_name_A. reflexivity. Qed.

Lemma gv_go_inert (tag pre : chars) ks acc :
  Forall (fun k => is_var_tag (xtag k) = false /\ get_variables k pre = []) ks ->
  gv_go get_variables tag pre ks acc = acc.
Proof.
  intros H; revert acc; induction H as [|k ks [Hk1 Hk2] _ IH]; intros acc; [reflexivity|].
  cbn [gv_go]. rewrite Hk1, Hk2. unfold aupdate. cbn [fold_left]. apply IH.
Qed.

Lemma var_children_inert dims attrs maps pre :
  Forall (fun k => is_var_tag (xtag k) = false /\ get_variables k pre = [])
         (map render_dim dims ++ map render_attr attrs ++ map render_map maps).
Proof.
  rewrite !Forall_app. repeat split; apply Forall_forall; intros k Hk; apply in_map_iff in Hk as (x & <- & _).
  - split; [destruct x; reflexivity|apply gv_dim].
  - split; [reflexivity|apply gv_attr].
  - split; [reflexivity|apply gv_map].
Qed.

Lemma gv_var tag n dims attrs maps pre : get_variables (render_item (IVar tag n dims attrs maps)) pre = [].
Proof.
  cbn [render_item get_variables]. rewrite xget_name_A.
  destruct (ceq tag (s2l "Dataset")); apply gv_go_inert, var_children_inert.
Qed.

Lemma gv_dimension n s pre : get_variables (render_item (IDim n s)) pre = [].
Proof. cbn [render_item get_variables]. rewrite xget_name_A. reflexivity. Qed.

Lemma is_var_tag_group : is_var_tag (s2l "Group") = false. Proof. reflexivity. Qed.
Lemma is_var_tag_dimension : is_var_tag (s2l "Dimension") = false. Proof. reflexivity. Qed.
Lemma is_var_tag_attribute : is_var_tag (s2l "Attribute") = false. Proof. reflexivity. Qed.

Section ItemInd.
  Variable P : item -> Prop.
  Hypothesis Hd : forall n s, P (IDim n s).
  Hypothesis Hv : forall t n d a m, P (IVar t n d a m).
  Hypothesis Hg : forall g its, Forall P its -> P (IGroup g its).
  Hypothesis Ha : forall a, P (IAttr a).
  Fixpoint item_ind2 (it : item) : P it :=
    match it with
    | IDim n s => Hd n s
    | IVar t n d a m => Hv t n d a m
    | IGroup g its =>
        Hg g its ((fix go (l : list item) : Forall P l :=
                     match l with [] => Forall_nil _ | x :: r => Forall_cons _ (item_ind2 x) (go r) end) its)
    | IAttr a => Ha a
    end.
End ItemInd.

(* the loop over the children of a Dataset / Group element *)
Lemma gv_go_items (tag : chars) p items : forall acc,
  Forall (fun it => forall pre', pre' = prefix_of p ->
            wf_item it = true -> NoDup (map fst (var_entries_item p tag it)) ->
            (match it with IGroup _ _ => True | _ => True end) /\
            get_variables (render_item it) pre' =
              match it with IGroup g its => var_entries (p ++ [g]) (s2l "Group") its | _ => [] end) items ->
  forallb wf_item items = true ->
  NoDup (map fst (acc ++ var_entries p tag items)) ->
  gv_go get_variables tag (prefix_of p) (map render_item items) acc = acc ++ var_entries p tag items.
Proof.
  induction items as [|it items IH]; intros acc HF Hw Hn.
  - cbn. now rewrite app_nil_r.
  - inversion HF as [|? ? Hit HF']; subst. cbn [forallb] in Hw. apply andb_true_iff in Hw as [Hwi Hw].
    unfold var_entries in *. cbn [flat_map] in Hn |- *. cbn [map gv_go].
    assert (Hn1 : NoDup (map fst (var_entries_item p tag it))).
    { rewrite app_assoc in Hn. rewrite map_app in Hn. apply NoDup_app_l in Hn. rewrite map_app in Hn. apply NoDup_app_r in Hn. exact Hn. }
    destruct (Hit (prefix_of p) eq_refl Hwi Hn1) as [_ Hsub].
    destruct it as [n s|vt n dims attrs maps|g its|a].
    + (* Dimension *)
      cbn [render_item xtag]. rewrite is_var_tag_dimension. change (get_variables (XNode (s2l "Dimension") _ _ _) (prefix_of p)) with (get_variables (render_item (IDim n s)) (prefix_of p)).
      rewrite gv_dimension. unfold aupdate at 1. cbn [fold_left var_entries_item app].
      apply IH; assumption.
    + (* variable *)
      cbn [wf_item] in Hwi. apply andb_true_iff in Hwi as [Hvt _].
      cbn [render_item xtag]. rewrite Hvt. unfold xget. cbn [xattrs]. rewrite xget_name_A.
      rewrite key_of_prefix.
      change (XNode vt [A "name" n] None (map render_dim dims ++ map render_attr attrs ++ map render_map maps))
        with (render_item (IVar vt n dims attrs maps)).
      rewrite gv_var. unfold aupdate at 1. cbn [fold_left].
      cbn [var_entries_item] in Hn |- *.
      rewrite aset_fresh.
      * rewrite IH; [now rewrite <- app_assoc|assumption|assumption|]. rewrite <- app_assoc. exact Hn.
      * rewrite map_app in Hn. cbn [map fst app] in Hn. apply NoDup_remove_2 in Hn. intros Hin. apply Hn. apply in_or_app. left. exact Hin.
    + (* group *)
      cbn [render_item xtag]. rewrite is_var_tag_group.
      change (XNode (s2l "Group") [A "name" g] None (map render_item its)) with (render_item (IGroup g its)).
      rewrite Hsub. cbn [var_entries_item] in Hn |- *. fold (var_entries (p ++ [g]) (s2l "Group") its) in Hn |- *.
      rewrite aupdate_fresh.
      * rewrite IH; [now rewrite <- app_assoc|assumption|assumption|]. rewrite <- app_assoc. exact Hn.
      * rewrite app_assoc in Hn. rewrite map_app in Hn. apply NoDup_app_l in Hn. exact Hn.
    + (* attribute *)
      cbn [render_item]. change (xtag (render_attr a)) with (s2l "Attribute"). rewrite is_var_tag_attribute, gv_attr.
      unfold aupdate at 1. cbn [fold_left var_entries_item app]. apply IH; assumption.
Qed.

Lemma gv_item it : forall p (tag : chars) pre', pre' = prefix_of p ->
  wf_item it = true -> NoDup (map fst (var_entries_item p tag it)) ->
  True /\ get_variables (render_item it) pre' =
          match it with IGroup g its => var_entries (p ++ [g]) (s2l "Group") its | _ => [] end.
Proof.
  induction it as [n s|vt n dims attrs maps|g its IH|a] using item_ind2; intros p tag pre' -> Hw Hn; split; try exact I.
  - apply gv_dimension.
  - apply gv_var.
  - cbn [wf_item] in Hw. apply andb_true_iff in Hw as [Hg Hits].
    cbn [render_item get_variables]. rewrite xget_name_A.
    change (ceq (s2l "Group") (s2l "Dataset")) with false. cbv iota.
    rewrite (wf_short_quote g Hg), <- prefix_snoc.
    rewrite (gv_go_items (s2l "Group") (p ++ [g]) its []); [reflexivity| |exact Hits|exact Hn].
    apply Forall_forall. intros it Hin pre' -> Hwi Hni. rewrite Forall_forall in IH.
    destruct (IH it Hin (p ++ [g]) (s2l "Group") _ eq_refl Hwi Hni) as [_ E]. split; [destruct it; exact I|exact E].
  - apply gv_attr.
Qed.

Theorem gv_render dsname items :
  forallb wf_item items = true -> NoDup (map fst (var_entries [] (s2l "Dataset") items)) ->
  get_variables (render dsname items) [] = var_entries [] (s2l "Dataset") items.
Proof.
  intros Hw Hn. unfold render. cbn [get_variables].
  change (aget (s2l "name") [A "dapVersion" (s2l "4.0"); A "name" dsname]) with (Some dsname).
  change (ceq (s2l "Dataset") (s2l "Dataset")) with true. cbv iota.
  change (@nil ascii) with (prefix_of []) at 1.
  rewrite (gv_go_items (s2l "Dataset") [] items []); [reflexivity| |exact Hw|exact Hn].
  apply Forall_forall. intros it _ pre' -> Hwi Hni.
  destruct (gv_item it [] (s2l "Dataset") _ eq_refl Hwi Hni) as [_ E]. split; [destruct it; exact I|exact E].
Qed.

(* ------------------------------------------------------------------ get_named_dimensions on a rendered document *)
Lemma int_of_dec n : int_of (dec n) = Some n.
Proof.
  unfold int_of. change (forallb _ (dec n)) with (forallb is_digit (dec n)). rewrite dec_digits.
  pose proof (dec_nonempty n) as Hne. destruct (dec n) as [|c r] eqn:E; [congruence|]. cbn [negb andb].
  rewrite <- E. unfold dec. rewrite l2s_s2l, parse_print_dec. cbn [option_map]. rewrite Nat2Z.id. reflexivity.
Qed.

Lemma gnd_go_inert pre ks acc :
  Forall (fun k => ceq (xtag k) (s2l "Dimension") = false /\ get_named_dimensions k pre = Some []) ks ->
  gnd_go get_named_dimensions pre ks acc = Some acc.
Proof.
  intros H; revert acc; induction H as [|k ks [Hk1 Hk2] _ IH]; intros acc; [reflexivity|].
  cbn [gnd_go]. rewrite Hk1, Hk2. cbn [obind]. unfold aupdate. cbn [fold_left]. apply IH.
Qed.

Lemma gnd_value v pre : get_named_dimensions (render_value v) pre = Some [].
Proof. destruct v; reflexivity. Qed.
Lemma gnd_attr a pre : get_named_dimensions (render_attr a) pre = Some [].
Proof.
  unfold render_attr. cbn [get_named_dimensions app]. rewrite xget_name_A.
  change (ceq (s2l "Attribute") (s2l "Dataset")) with false. cbv iota.
  apply gnd_go_inert. apply Forall_forall. intros k Hk. apply in_map_iff in Hk as (v & <- & _).
  split; [destruct v; reflexivity|apply gnd_value].
Qed.
Lemma gnd_dim d pre : get_named_dimensions (render_dim d) pre = Some [].
Proof. destruct d as [n|p n]; cbn [render_dim get_named_dimensions]; [reflexivity|]. rewrite xget_name_A. reflexivity. Qed.
Lemma gnd_map m pre : get_named_dimensions (render_map m) pre = Some [].
Proof. cbn [render_map get_named_dimensions]. rewrite xget_name_A. reflexivity. Qed.

Lemma gnd_var tag n dims attrs maps pre :
  get_named_dimensions (render_item (IVar tag n dims attrs maps)) pre = Some [].
Proof.
  cbn [render_item get_named_dimensions]. rewrite xget_name_A.
  assert (H : forall pre', Forall (fun k => ceq (xtag k) (s2l "Dimension") = false /\ get_named_dimensions k pre' = Some [])
            (map render_dim dims ++ map render_attr attrs ++ map render_map maps)).
  { intros pre'. rewrite !Forall_app. repeat split; apply Forall_forall; intros k Hk; apply in_map_iff in Hk as (x & <- & _).
    - split; [destruct x; reflexivity|apply gnd_dim].
    - split; [reflexivity|apply gnd_attr].
    - split; [reflexivity|apply gnd_map]. }
  destruct (ceq tag (s2l "Dataset")); apply gnd_go_inert, H.
Qed.

Lemma gnd_dimension n s pre : get_named_dimensions (render_item (IDim n s)) pre = Some [].
Proof. cbn [render_item get_named_dimensions]. rewrite xget_name_A. reflexivity. Qed.

Lemma gnd_go_items p items : forall acc,
  Forall (fun it => forall pre', pre' = prefix_of p ->
            wf_item it = true -> NoDup (map fst (decl_dims_item p it)) ->
            get_named_dimensions (render_item it) pre' =
              Some (match it with IGroup g its => decl_dims (p ++ [g]) its | _ => [] end)) items ->
  forallb wf_item items = true ->
  NoDup (map fst (acc ++ decl_dims p items)) ->
  gnd_go get_named_dimensions (prefix_of p) (map render_item items) acc = Some (acc ++ decl_dims p items).
Proof.
  induction items as [|it items IH]; intros acc HF Hw Hn.
  - cbn. now rewrite app_nil_r.
  - inversion HF as [|? ? Hit HF']; subst. cbn [forallb] in Hw. apply andb_true_iff in Hw as [Hwi Hw].
    unfold decl_dims in *. cbn [flat_map] in Hn |- *. cbn [map gnd_go].
    assert (Hn1 : NoDup (map fst (decl_dims_item p it))).
    { rewrite app_assoc in Hn. rewrite map_app in Hn. apply NoDup_app_l in Hn. rewrite map_app in Hn. apply NoDup_app_r in Hn. exact Hn. }
    specialize (Hit (prefix_of p) eq_refl Hwi Hn1).
    destruct it as [n s|vt n dims attrs maps|g its|a].
    + cbn [render_item xtag]. change (ceq (s2l "Dimension") (s2l "Dimension")) with true. cbv iota.
      unfold xget. cbn [xattrs]. rewrite xget_name_A.
      change (aget (s2l "size") [A "name" n; A "size" (dec s)]) with (Some (dec s)).
      cbv iota. rewrite int_of_dec. cbn [obind]. rewrite key_of_prefix.
      change (XNode (s2l "Dimension") [A "name" n; A "size" (dec s)] None []) with (render_item (IDim n s)).
      rewrite gnd_dimension. cbn [obind]. unfold aupdate at 1. cbn [fold_left].
      cbn [decl_dims_item] in Hn |- *. rewrite aset_fresh.
      * rewrite IH; [now rewrite <- app_assoc|assumption|assumption|]. rewrite <- app_assoc. exact Hn.
      * rewrite map_app in Hn. cbn [map fst app] in Hn. apply NoDup_remove_2 in Hn. intros Hin. apply Hn. apply in_or_app. left. exact Hin.
    + cbn [wf_item] in Hwi. apply andb_true_iff in Hwi as [Hvt _].
      assert (Hnd : ceq (xtag (render_item (IVar vt n dims attrs maps))) (s2l "Dimension") = false).
      { cbn [render_item xtag]. destruct (ceq vt (s2l "Dimension")) eqn:E; [|reflexivity].
        apply ceq_eq in E. subst vt. discriminate Hvt. }
      rewrite Hnd. cbn [obind]. rewrite gnd_var. cbn [obind]. unfold aupdate at 1. cbn [fold_left decl_dims_item app].
      apply IH; assumption.
    + cbn [render_item xtag]. change (ceq (s2l "Group") (s2l "Dimension")) with false. cbv iota. cbn [obind].
      change (XNode (s2l "Group") [A "name" g] None (map render_item its)) with (render_item (IGroup g its)).
      rewrite Hit. cbn [obind]. cbn [decl_dims_item] in Hn |- *. fold (decl_dims (p ++ [g]) its) in Hn |- *.
      rewrite aupdate_fresh.
      * rewrite IH; [now rewrite <- app_assoc|assumption|assumption|]. rewrite <- app_assoc. exact Hn.
      * rewrite app_assoc in Hn. rewrite map_app in Hn. apply NoDup_app_l in Hn. exact Hn.
    + cbn [render_item]. change (ceq (xtag (render_attr a)) (s2l "Dimension")) with false. cbv iota. cbn [obind].
      rewrite gnd_attr. cbn [obind]. unfold aupdate at 1. cbn [fold_left decl_dims_item app]. apply IH; assumption.
Qed.

Lemma gnd_item it : forall p pre', pre' = prefix_of p ->
  wf_item it = true -> NoDup (map fst (decl_dims_item p it)) ->
  get_named_dimensions (render_item it) pre' =
  Some (match it with IGroup g its => decl_dims (p ++ [g]) its | _ => [] end).
Proof.
  induction it as [n s|vt n dims attrs maps|g its IH|a] using item_ind2; intros p pre' -> Hw Hn.
  - apply gnd_dimension.
  - apply gnd_var.
  - cbn [wf_item] in Hw. apply andb_true_iff in Hw as [Hg Hits].
    cbn [render_item get_named_dimensions]. rewrite xget_name_A.
    change (ceq (s2l "Group") (s2l "Dataset")) with false. cbv iota.
    rewrite <- prefix_snoc.
    rewrite (gnd_go_items (p ++ [g]) its []); [reflexivity| |exact Hits|exact Hn].
    apply Forall_forall. intros it Hin pre' -> Hwi Hni. rewrite Forall_forall in IH.
    apply (IH it Hin (p ++ [g]) _ eq_refl Hwi Hni).
  - apply gnd_attr.
Qed.

Theorem gnd_render dsname items :
  forallb wf_item items = true -> NoDup (map fst (decl_dims [] items)) ->
  get_named_dimensions (render dsname items) [] = Some (decl_dims [] items).
Proof.
  intros Hw Hn. unfold render. cbn [get_named_dimensions].
  change (aget (s2l "name") [A "dapVersion" (s2l "4.0"); A "name" dsname]) with (Some dsname).
  change (ceq (s2l "Dataset") (s2l "Dataset")) with true. cbv iota.
  change (@nil ascii) with (prefix_of []) at 1.
  rewrite (gnd_go_items [] items []); [reflexivity| |exact Hw|exact Hn].
  apply Forall_forall. intros it _ pre' -> Hwi Hni. apply (gnd_item it [] _ eq_refl Hwi Hni).
Qed.

(* ------------------------------------------------------------------ one variable *)
Lemma filter_none {T} (f : T -> bool) l : (forall x, In x l -> f x = false) -> filter f l = [].
Proof. induction l as [|x l IH]; intros H; [reflexivity|]. cbn [filter]. rewrite (H x (or_introl eq_refl)). apply IH. intros y Hy. apply H. right. exact Hy. Qed.
Lemma filter_all {T} (f : T -> bool) l : (forall x, In x l -> f x = true) -> filter f l = l.
Proof. induction l as [|x l IH]; intros H; [reflexivity|]. cbn [filter]. rewrite (H x (or_introl eq_refl)). f_equal. apply IH. intros y Hy. apply H. right. exact Hy. Qed.

Definition var_kids dims attrs maps := map render_dim dims ++ map render_attr attrs ++ map render_map maps.

Lemma findall_dim tag n dims attrs maps :
  findall "Dim" (XNode tag [A "name" n] None (var_kids dims attrs maps)) = map render_dim dims.
Proof.
  unfold findall, var_kids. cbn [xkids]. rewrite !filter_app.
  rewrite (filter_all _ (map render_dim dims)), (filter_none _ (map render_attr attrs)), (filter_none _ (map render_map maps)).
  - now rewrite !app_nil_r.
  - intros x Hx. apply in_map_iff in Hx as (m & <- & _). reflexivity.
  - intros x Hx. apply in_map_iff in Hx as (m & <- & _). reflexivity.
  - intros x Hx. apply in_map_iff in Hx as (m & <- & _). destruct m; reflexivity.
Qed.
Lemma findall_attr tag n dims attrs maps :
  findall "Attribute" (XNode tag [A "name" n] None (var_kids dims attrs maps)) = map render_attr attrs.
Proof.
  unfold findall, var_kids. cbn [xkids]. rewrite !filter_app.
  rewrite (filter_none _ (map render_dim dims)), (filter_all _ (map render_attr attrs)), (filter_none _ (map render_map maps)).
  - now rewrite app_nil_r.
  - intros x Hx. apply in_map_iff in Hx as (m & <- & _). reflexivity.
  - intros x Hx. apply in_map_iff in Hx as (m & <- & _). reflexivity.
  - intros x Hx. apply in_map_iff in Hx as (m & <- & _). destruct m; reflexivity.
Qed.
Lemma findall_map tag n dims attrs maps :
  findall "Map" (XNode tag [A "name" n] None (var_kids dims attrs maps)) = map render_map maps.
Proof.
  unfold findall, var_kids. cbn [xkids]. rewrite !filter_app.
  rewrite (filter_none _ (map render_dim dims)), (filter_none _ (map render_attr attrs)), (filter_all _ (map render_map maps)).
  - reflexivity.
  - intros x Hx. apply in_map_iff in Hx as (m & <- & _). reflexivity.
  - intros x Hx. apply in_map_iff in Hx as (m & <- & _). reflexivity.
  - intros x Hx. apply in_map_iff in Hx as (m & <- & _). destruct m; reflexivity.
Qed.

(* attributes *)
Lemma attr_values_render a :
  attr_values (render_attr a) = snd (snd (attr_decl a)).
Proof.
  unfold attr_values, render_attr, attr_decl. cbn [snd]. f_equal.
  - unfold xget. cbn [xattrs]. destruct (a_inline a); reflexivity.
  - unfold findall. cbn [xkids]. rewrite filter_all.
    + rewrite map_map. apply map_ext. intros v. destruct v; reflexivity.
    + intros x Hx. apply in_map_iff in Hx as (v & <- & _). destruct v; reflexivity.
Qed.

Lemma get_attributes_render tag n dims attrs maps :
  NoDup (map a_name attrs) ->
  get_attributes (XNode tag [A "name" n] None (var_kids dims attrs maps)) = map attr_decl attrs.
Proof.
  intros Hn. unfold get_attributes. rewrite findall_attr.
  assert (G : forall acc, NoDup (map fst acc ++ map a_name attrs) ->
            fold_left (fun acc a => match xget "name" a with
                                    | Some n => aset n (xget "type" a, attr_values a) acc
                                    | None => acc end) (map render_attr attrs) acc = acc ++ map attr_decl attrs).
  { clear Hn. induction attrs as [|a attrs IH]; intros acc H; [now rewrite app_nil_r|].
    cbn [map fold_left]. change (xget "name" (render_attr a)) with (Some (a_name a)).
    cbv beta iota. change (xget "type" (render_attr a)) with (Some (a_type a)). rewrite attr_values_render.
    rewrite aset_fresh.
    - rewrite IH.
      + rewrite <- app_assoc. reflexivity.
      + rewrite map_app. cbn [map fst]. rewrite <- app_assoc. exact H.
    - cbn [map] in H. apply NoDup_remove_2 in H. intros Hin. apply H. apply in_or_app. left. exact Hin. }
  apply (G []). exact Hn.
Qed.

(* dimension keys *)
Lemma no_slash_spec n : no_slash n = true -> Forall (fun c => c <> slash) n.
Proof.
  unfold no_slash. rewrite forallb_forall, Forall_forall. intros H c Hc. specialize (H c Hc).
  intros ->. rewrite Ascii.eqb_refl in H. discriminate.
Qed.

Lemma filter_no_slash n : no_slash n = true -> filter (fun c => negb (Ascii.eqb c slash)) n = n.
Proof. intros H. apply filter_all. unfold no_slash in H. rewrite forallb_forall in H. exact H. Qed.
Lemma exists_no_slash n : no_slash n = true -> existsb (Ascii.eqb slash) n = false.
Proof.
  intros H. unfold no_slash in H. induction n as [|c n IH]; [reflexivity|]. cbn [forallb existsb] in *.
  apply andb_true_iff in H as [Hc H]. rewrite Ascii.eqb_sym. destruct (Ascii.eqb c slash); [discriminate|]. apply IH, H.
Qed.

Lemma dim_key_ref p n : no_slash n = true -> dim_key (ref_text p n) = fqn p n.
Proof.
  intros Hn. unfold dim_key, ref_text, fqn. destruct p as [|g p].
  - cbn [app join]. change ([] ++ [slash] ++ n) with (slash :: n). cbn [tl]. rewrite (exists_no_slash n Hn).
    cbn [filter]. rewrite Ascii.eqb_refl. cbn [negb]. apply filter_no_slash, Hn.
  - change ([] :: (g :: p) ++ [n]) with ([] :: g :: p ++ [n]). rewrite join_cons_cons.
    change ([] ++ [slash] ++ ?X) with (slash :: X). cbn [tl].
    assert (H : existsb (Ascii.eqb slash) (join [slash] (g :: p ++ [n])) = true).
    { destruct (p ++ [n]) as [|x l] eqn:E; [destruct p; discriminate|]. rewrite join_cons_cons.
      rewrite existsb_app. apply orb_true_iff. right. cbn [app existsb]. rewrite Ascii.eqb_refl. reflexivity. }
    rewrite H. reflexivity.
Qed.

Lemma find_dim_in n s items : forall q, find_dim n items = Some s -> In (fqn q n, s) (decl_dims q items).
Proof.
  induction items as [|it items IH]; intros q H; [discriminate|]. unfold decl_dims. cbn [flat_map].
  apply in_or_app. destruct it as [n' s'|? ? ? ? ?|? ?|?]; cbn [find_dim] in H; try (right; apply IH; exact H).
  destruct (ceq n n') eqn:E.
  - apply ceq_eq in E. subst. injection H as ->. left. left. reflexivity.
  - right. apply IH, H.
Qed.

Lemma find_group_sub g its items : forall q x, find_group g items = Some its ->
  In x (decl_dims (q ++ [g]) its) -> In x (decl_dims q items).
Proof.
  induction items as [|it items IH]; intros q x H Hin; [discriminate|]. unfold decl_dims. cbn [flat_map].
  apply in_or_app. destruct it as [? ?|? ? ? ? ?|g' its'|?]; cbn [find_group] in H; try (right; apply (IH q x H Hin)).
  destruct (ceq g g') eqn:E.
  - apply ceq_eq in E. subst. injection H as ->. left. exact Hin.
  - right. apply (IH q x H Hin).
Qed.

Lemma fqn_app q p n : fqn (q ++ p) n = fqn (q ++ p) n. Proof. reflexivity. Qed.

Lemma spec_size_in n s : forall p q items, spec_size p n items = Some s -> In (fqn (q ++ p) n, s) (decl_dims q items).
Proof.
  induction p as [|g p IH]; intros q items H; cbn [spec_size] in H.
  - rewrite app_nil_r. apply find_dim_in, H.
  - destruct (find_group g items) as [its|] eqn:E; [|discriminate].
    apply (find_group_sub g its items q _ E). replace (q ++ g :: p) with ((q ++ [g]) ++ p) by (rewrite <- app_assoc; reflexivity).
    apply IH, H.
Qed.

(* the short name of a resolvable reference is a declared (hence slash-free) name *)
Lemma find_dim_wf n s items : forallb wf_item items = true -> find_dim n items = Some s -> wf_short n = true.
Proof.
  induction items as [|it items IH]; intros Hw H; [discriminate|]. cbn [forallb] in Hw. apply andb_true_iff in Hw as [Hi Hw].
  destruct it as [n' s'|? ? ? ? ?|? ?|?]; cbn [find_dim] in H; try (apply IH; assumption).
  destruct (ceq n n') eqn:E; [|apply IH; assumption]. apply ceq_eq in E. subst. exact Hi.
Qed.
Lemma find_group_wf g its items : forallb wf_item items = true -> find_group g items = Some its ->
  wf_short g = true /\ forallb wf_item its = true.
Proof.
  induction items as [|it items IH]; intros Hw H; [discriminate|]. cbn [forallb] in Hw. apply andb_true_iff in Hw as [Hi Hw].
  destruct it as [? ?|? ? ? ? ?|g' its'|?]; cbn [find_group] in H; try (apply IH; assumption).
  destruct (ceq g g') eqn:E; [|apply IH; assumption]. apply ceq_eq in E. subst. injection H as ->.
  cbn [wf_item] in Hi. apply andb_true_iff in Hi. exact Hi.
Qed.
Lemma spec_size_wf n s : forall p items, forallb wf_item items = true -> spec_size p n items = Some s ->
  wf_short n = true /\ Forall (fun g => wf_short g = true) p.
Proof.
  induction p as [|g p IH]; intros items Hw H; cbn [spec_size] in H.
  - split; [apply (find_dim_wf n s items Hw H)|constructor].
  - destruct (find_group g items) as [its|] eqn:E; [|discriminate].
    destruct (find_group_wf g its items Hw E) as [Hg Hits]. destruct (IH its Hits H) as [Hn Hp].
    split; [exact Hn|constructor; assumption].
Qed.

Lemma wf_short_parts n : wf_short n = true -> n <> [] /\ forallb legal n = true /\ no_slash n = true.
Proof.
  unfold wf_short. intros H. apply andb_true_iff in H as [H H3]. apply andb_true_iff in H as [H1 H2].
  repeat split; try assumption. destruct n; [discriminate|discriminate].
Qed.

Lemma resolve_shape_render root named dims shape :
  forallb wf_item root = true -> named = decl_dims [] root -> NoDup (map fst named) ->
  omap_list (dim_size root) dims = Some shape ->
  resolve_shape named (map render_dim dims) = Some shape.
Proof.
  intros Hw -> Hn. revert shape. induction dims as [|d dims IH]; intros shape H; cbn [omap_list] in H.
  - injection H as <-. reflexivity.
  - destruct (dim_size root d) as [k|] eqn:Ed; [|discriminate]. cbn [obind] in H.
    destruct (omap_list (dim_size root) dims) as [rest|] eqn:Er; [|discriminate]. cbn [obind] in H. injection H as <-.
    cbn [map resolve_shape]. rewrite (IH rest eq_refl). destruct d as [a|p m]; cbn [dim_size] in Ed.
    + injection Ed as ->. cbn [render_dim]. unfold xget. cbn [xattrs].
      change (aget (s2l "name") [A "size" (dec k)]) with (@None chars).
      change (aget (s2l "size") [A "size" (dec k)]) with (Some (dec k)). cbv iota. rewrite int_of_dec. reflexivity.
    + cbn [render_dim]. unfold xget. cbn [xattrs]. rewrite xget_name_A. cbv iota.
      destruct (spec_size_wf m k p root Hw Ed) as [Hm _]. destruct (wf_short_parts m Hm) as (_ & _ & Hns).
      rewrite (dim_key_ref p m Hns).
      rewrite (aget_in (fqn p m) k (decl_dims [] root) Hn); [reflexivity|].
      apply (spec_size_in m k p [] root Ed).
Qed.

Lemma parts_short n : no_slash n = true -> parts n = [n].
Proof.
  intros H. unfold parts. change n with (join [slash] [n]) at 1. apply split_on_join; [discriminate|].
  constructor; [apply no_slash_spec, H|constructor].
Qed.
Lemma parts_path p n :
  Forall (fun g => no_slash g = true) p -> no_slash n = true ->
  parts (join [slash] ([] :: p ++ [n])) = [] :: p ++ [n].
Proof.
  intros Hp Hn. unfold parts. apply split_on_join; [discriminate|]. constructor; [constructor|].
  apply Forall_app. split.
  - apply Forall_forall. intros g Hg. rewrite Forall_forall in Hp. apply no_slash_spec, Hp, Hg.
  - constructor; [apply no_slash_spec, Hn|constructor].
Qed.

Lemma join_slash_eq l : join_slash l = join [slash] l.
Proof. induction l as [|x l IH]; [reflexivity|]. destruct l as [|y l]; [reflexivity|]. rewrite join_cons_cons.
  change (join_slash (x :: y :: l)) with (x ++ slash :: join_slash (y :: l)). rewrite IH. reflexivity. Qed.

Lemma fqn_legal p n :
  Forall (fun g => wf_short g = true) p -> wf_short n = true -> forallb legal (fqn p n) = true.
Proof.
  intros Hp Hn. destruct (wf_short_parts n Hn) as (_ & Hl & _). unfold fqn. destruct p as [|g p]; [exact Hl|].
  assert (G : forall l, Forall (fun g => forallb legal g = true) l -> forallb legal (join [slash] l) = true).
  { induction l as [|x l IH]; intros H; [reflexivity|]. inversion H; subst. destruct l as [|y l]; [assumption|].
    rewrite join_cons_cons, !forallb_app. apply andb_true_iff. split; [exact H2|]. apply andb_true_iff. split; [reflexivity|exact (IH H3)]. }
  apply G. constructor; [reflexivity|]. apply Forall_app. split.
  - apply Forall_forall. intros x Hx. rewrite Forall_forall in Hp. apply (wf_short_parts x (Hp x Hx)).
  - constructor; [exact Hl|constructor].
Qed.

Definition is_group (it : item) : bool := match it with IGroup _ _ => true | _ => false end.

(* the fully qualified names a variable lists for its named dimensions *)
Lemma dims_render root groups dims shape :
  forallb wf_item root = true -> omap_list (dim_size root) dims = Some shape ->
  (groups = true \/ forall p m, In (DNamed p m) dims -> p = []) ->
  map (fun d => match (if groups then parts d else [d]) with [_] => slash :: d | _ => d end)
      (flat_map (fun d => match xget "name" d with Some n => [dim_key n] | None => [] end) (map render_dim dims))
  = named_refs dims.
Proof.
  intros Hw. revert shape. induction dims as [|d dims IH]; intros shape H Hg; [reflexivity|].
  cbn [omap_list] in H. destruct (dim_size root d) as [k|] eqn:Ed; [|discriminate]. cbn [obind] in H.
  destruct (omap_list (dim_size root) dims) as [rest|] eqn:Er; [|discriminate].
  assert (Hg' : groups = true \/ (forall p m, In (DNamed p m) dims -> p = [])).
  { destruct Hg as [Hg|Hg]; [left; exact Hg|right; intros p m Hin; apply (Hg p m); right; exact Hin]. }
  cbn [map flat_map]. unfold named_refs. cbn [flat_map]. fold (named_refs dims).
  destruct d as [a|p m].
  - cbn [render_dim]. unfold xget at 1. cbn [xattrs]. change (aget (s2l "name") [A "size" (dec a)]) with (@None chars).
    cbv iota. cbn [app]. apply (IH rest eq_refl Hg').
  - cbn [render_dim]. unfold xget at 1. cbn [xattrs]. rewrite xget_name_A. cbv iota. cbn [app map].
    rewrite (IH rest eq_refl Hg'). f_equal. cbn [dim_size] in Ed.
    destruct (spec_size_wf m k p root Hw Ed) as [Hm Hp]. destruct (wf_short_parts m Hm) as (_ & _ & Hns).
    rewrite (dim_key_ref p m Hns).
    assert (Hpn : Forall (fun g => no_slash g = true) p).
    { apply Forall_forall. intros g Hin. rewrite Forall_forall in Hp. apply (wf_short_parts g (Hp g Hin)). }
    destruct p as [|g p].
    + unfold fqn. assert (E : (if groups then parts m else [m]) = [m]) by (destruct groups; [apply parts_short, Hns|reflexivity]).
      rewrite E. reflexivity.
    + destruct groups.
      * unfold fqn. rewrite (parts_path (g :: p) m Hpn Hns). reflexivity.
      * destruct Hg as [Hg|Hg]; [discriminate|]. specialize (Hg (g :: p) m (or_introl eq_refl)). discriminate.
Qed.

Lemma mk_var_render root groups named p parent tag n dims attrs maps v :
  forallb wf_item root = true -> named = decl_dims [] root -> NoDup (map fst named) ->
  wf_short n = true -> Forall (fun g => wf_short g = true) p -> NoDup (map a_name attrs) ->
  (groups = true \/ (p = [] /\ forall p' m, In (DNamed p' m) dims -> p' = [])) ->
  var_decl root p parent (IVar tag n dims attrs maps) = Some v ->
  mk_var groups named (fqn p n, (render_item (IVar tag n dims attrs maps), parent)) = Some v.
Proof.
  intros Hw Hnamed Hnd Hn Hp Ha Hg Hv. cbn [var_decl] in Hv.
  destruct (omap_list (dim_size root) dims) as [shape|] eqn:Es; [|discriminate]. cbn [obind] in Hv. injection Hv as <-.
  unfold mk_var. cbn [render_item]. fold (var_kids dims attrs maps).
  rewrite findall_dim. rewrite (resolve_shape_render root named dims shape Hw Hnamed Hnd Es). cbn [obind].
  unfold get_dim_names. rewrite findall_dim. unfold get_maps. rewrite findall_map. rewrite get_attributes_render by exact Ha.
  rewrite (dims_render root groups dims shape Hw Es) by (destruct Hg as [Hg|[_ Hg]]; [left; exact Hg|right; exact Hg]).
  destruct (wf_short_parts n Hn) as (_ & _ & Hns).
  assert (Hpn : Forall (fun g => no_slash g = true) p).
  { apply Forall_forall. intros g Hin. rewrite Forall_forall in Hp. apply (wf_short_parts g (Hp g Hin)). }
  rewrite (quote_fix (fqn p n)) by (apply fqn_legal; assumption).
  f_equal. f_equal.
  - rewrite map_map. apply map_ext. intros m. reflexivity.
  - destruct p as [|g p].
    + unfold fqn. assert (E : (if groups then parts n else [n]) = [n]) by (destruct groups; [apply parts_short, Hns|reflexivity]).
      rewrite E. reflexivity.
    + destruct groups; [|destruct Hg as [Hg|[Hg _]]; discriminate].
      unfold fqn. rewrite (parts_path (g :: p) n Hpn Hns). cbn [app].
      change ([] :: g :: p ++ [n]) with (([] :: g :: p) ++ [n]). rewrite removelast_last.
      rewrite join_slash_eq. reflexivity.
Qed.

(* ------------------------------------------------------------------ the whole document *)
Fixpoint nodupb (l : list chars) : bool :=
  match l with [] => true | x :: r => negb (existsb (ceq x) r) && nodupb r end.
Lemma nodupb_spec l : nodupb l = true -> NoDup l.
Proof.
  induction l as [|x l IH]; intros H; [constructor|]. cbn [nodupb] in H. apply andb_true_iff in H as [H1 H2].
  constructor; [|apply IH, H2]. intros Hin. apply negb_true_iff in H1.
  assert (existsb (ceq x) l = true) by (apply existsb_exists; exists x; split; [exact Hin|apply ceq_refl]). congruence.
Qed.

Fixpoint attrs_ok (it : item) : bool :=
  match it with
  | IVar _ _ _ attrs _ => nodupb (map a_name attrs)
  | IGroup _ its => forallb attrs_ok its
  | _ => true
  end.

Lemma find_group_none g items : existsb is_group items = false -> find_group g items = None.
Proof.
  induction items as [|it items IH]; intros H; [reflexivity|]. cbn [existsb] in H. apply orb_false_iff in H as [H1 H2].
  destruct it; cbn [find_group]; try (apply IH, H2). discriminate H1.
Qed.

Lemma omap_list_app {X Y} (f : X -> option Y) a b ra rb :
  omap_list f a = Some ra -> omap_list f b = Some rb -> omap_list f (a ++ b) = Some (ra ++ rb).
Proof.
  revert ra; induction a as [|x a IH]; intros ra Ha Hb; cbn [omap_list app] in *.
  - injection Ha as <-. exact Hb.
  - destruct (f x) as [y|]; [|discriminate]. cbn [obind] in *. destruct (omap_list f a) as [ys|]; [|discriminate].
    cbn [obind] in *. injection Ha as <-. rewrite (IH ys eq_refl Hb). reflexivity.
Qed.

Lemma entries_item root groups named it :
  forallb wf_item root = true -> named = decl_dims [] root -> NoDup (map fst named) ->
  groups = existsb is_group root ->
  forall p parent vs,
  wf_item it = true -> attrs_ok it = true -> Forall (fun g => wf_short g = true) p ->
  (groups = true \/ (p = [] /\ is_group it = false)) ->
  decl_vars_item root p parent it = Some vs ->
  omap_list (mk_var groups named) (var_entries_item p parent it) = Some vs.
Proof.
  intros Hw Hnamed Hnd Hgr.
  induction it as [n s|vt n dims attrs maps|g its IH|a] using item_ind2; intros p parent vs Hwi Hao Hp Hg Hd.
  - cbn in Hd |- *. exact Hd.
  - cbn [decl_vars_item] in Hd. destruct (var_decl root p parent (IVar vt n dims attrs maps)) as [v|] eqn:Ev; [|discriminate].
    cbn [obind] in Hd. injection Hd as <-. cbn [var_entries_item omap_list].
    cbn [wf_item] in Hwi. apply andb_true_iff in Hwi as [_ Hn]. cbn [attrs_ok] in Hao.
    rewrite (mk_var_render root groups named p parent vt n dims attrs maps v Hw Hnamed Hnd Hn Hp (nodupb_spec _ Hao)); [reflexivity| |exact Ev].
    destruct Hg as [Hg|[Hp0 _]]; [left; exact Hg|]. destruct groups eqn:Eg; [left; reflexivity|right]. split; [exact Hp0|].
    intros p' m Hin. destruct p' as [|g' p']; [reflexivity|]. exfalso.
    cbn [var_decl] in Ev. destruct (omap_list (dim_size root) dims) as [shape|] eqn:Es; [|discriminate].
    clear Ev. revert shape Es. induction dims as [|d dims IHd]; intros shape Es; [destruct Hin|].
    cbn [omap_list] in Es. destruct (dim_size root d) as [k|] eqn:Ed; [|discriminate]. cbn [obind] in Es.
    destruct (omap_list (dim_size root) dims) as [rest|] eqn:Er; [|discriminate].
    destruct Hin as [-> | Hin].
    + cbn [dim_size spec_size] in Ed. rewrite (find_group_none g' root) in Ed by (symmetry; exact Hgr). discriminate.
    + apply (IHd Hin rest eq_refl).
  - cbn [wf_item] in Hwi. apply andb_true_iff in Hwi as [Hgs Hits]. cbn [attrs_ok] in Hao.
    destruct Hg as [Hg|[_ Hng]]; [|discriminate].
    cbn [decl_vars_item] in Hd. cbn [var_entries_item].
    assert (Hp' : Forall (fun g => wf_short g = true) (p ++ [g])) by (apply Forall_app; split; [exact Hp|constructor; [exact Hgs|constructor]]).
    revert vs Hd. induction its as [|it its IHits]; intros vs Hd.
    + cbn in Hd |- *. exact Hd.
    + inversion IH as [|? ? Hit IH']; subst. cbn [forallb] in Hits, Hao.
      apply andb_true_iff in Hits as [Hw1 Hw2]. apply andb_true_iff in Hao as [Ha1 Ha2].
      cbn [oflat] in Hd. destruct (decl_vars_item root (p ++ [g]) (s2l "Group") it) as [a|] eqn:Ea; [|discriminate].
      cbn [obind] in Hd. destruct (oflat (decl_vars_item root (p ++ [g]) (s2l "Group")) its) as [b|] eqn:Eb; [|discriminate].
      cbn [obind] in Hd. injection Hd as <-. cbn [flat_map].
      apply omap_list_app.
      * apply (Hit (p ++ [g]) (s2l "Group") a Hw1 Ha1 Hp' (or_introl Hg) Ea).
      * apply (IHits IH' Hw2 Ha2 b eq_refl).
  - cbn in Hd |- *. exact Hd.
Qed.

(* a variable element is never tagged Group *)
Lemma var_tag_not_group vt : is_var_tag vt = true -> ceq vt (s2l "Group") = false.
Proof. intros H. destruct (ceq vt (s2l "Group")) eqn:E; [|reflexivity]. apply ceq_eq in E. subst. discriminate H. Qed.

Theorem parse_render dsname items vs :
  forallb wf_item items = true -> forallb attrs_ok items = true ->
  NoDup (map fst (var_entries [] (s2l "Dataset") items)) -> NoDup (map fst (decl_dims [] items)) ->
  decl_vars items [] (s2l "Dataset") items = Some vs ->
  parse_dmr (render dsname items) = Some vs.
Proof.
  intros Hw Ha Hnv Hnd Hd. unfold parse_dmr.
  rewrite (gnd_render dsname items Hw Hnd). cbn [obind]. rewrite (gv_render dsname items Hw Hnv).
  set (groups := has_groups (render dsname items)).
  assert (Hgr : groups = existsb is_group items).
  { unfold groups, has_groups, render, findall. cbn [xkids]. clear -Hw. induction items as [|it items IH]; [reflexivity|].
    cbn [forallb] in Hw. apply andb_true_iff in Hw as [Hwi Hw]. cbn [map filter existsb].
    destruct it as [? ?|vt ? ? ? ?|? ?|a]; cbn [render_item xtag is_group].
    - change (ceq (s2l "Dimension") (s2l "Group")) with false. cbv iota. apply IH, Hw.
    - cbn [wf_item] in Hwi. apply andb_true_iff in Hwi as [Hvt _]. rewrite (var_tag_not_group vt Hvt). apply IH, Hw.
    - reflexivity.
    - change (ceq (xtag (render_attr a)) (s2l "Group")) with false. cbv iota. apply IH, Hw. }
  unfold decl_vars in Hd. unfold var_entries.
  assert (G : forall its vs', (forall it, In it its -> In it items) -> forallb wf_item its = true -> forallb attrs_ok its = true ->
              oflat (decl_vars_item items [] (s2l "Dataset")) its = Some vs' ->
              omap_list (mk_var groups (decl_dims [] items)) (flat_map (var_entries_item [] (s2l "Dataset")) its) = Some vs').
  { induction its as [|it its IH]; intros vs' Hsub Hw' Ha' Hd'.
    - cbn in Hd' |- *. exact Hd'.
    - cbn [forallb] in Hw', Ha'. apply andb_true_iff in Hw' as [Hw1 Hw2]. apply andb_true_iff in Ha' as [Ha1 Ha2].
      cbn [oflat] in Hd'. destruct (decl_vars_item items [] (s2l "Dataset") it) as [a|] eqn:Ea; [|discriminate].
      cbn [obind] in Hd'. destruct (oflat (decl_vars_item items [] (s2l "Dataset")) its) as [b|] eqn:Eb; [|discriminate].
      cbn [obind] in Hd'. injection Hd' as <-. cbn [flat_map]. apply omap_list_app.
      + apply (entries_item items groups (decl_dims [] items) it Hw eq_refl Hnd Hgr [] (s2l "Dataset") a Hw1 Ha1 (Forall_nil _)); [|exact Ea].
        destruct (is_group it) eqn:Eig; [left|right; split; reflexivity].
        rewrite Hgr. apply existsb_exists. exists it. split; [apply Hsub; left; reflexivity|exact Eig].
      + apply (IH b (fun x Hx => Hsub x (or_intror Hx)) Hw2 Ha2 eq_refl). }
  apply (G items vs (fun it H => H) Hw Ha Hd).
Qed.
