(* C13: scripts that only read the shared dataset cannot influence one another, whatever the interleaving. *)
From PydapV Require Import Base Isolation.
From Coq Require Import Lia.
Open Scope nat_scope.

Section Proofs.
  Variables (Sh L : Type).
  Implicit Types (s : Sh) (c : config Sh L).

  Lemma run_script_cons s (st : step Sh L) t l : run_script s (st :: t) l = run_script s t (st s l).
  Proof. reflexivity. Qed.

  (* a tick does not change what every request will eventually have computed *)
  Lemma alone_tick s : forall c i, alone s (tick s c i) = alone s c.
  Proof.
    induction c as [|[t l] c IH]; intros i; [reflexivity|]. destruct i as [|i].
    - destruct t as [|st rest]; reflexivity.
    - cbn [tick]. unfold alone in *. cbn [map]. f_equal. apply IH.
  Qed.

  Lemma alone_sched s sched : forall c, alone s (run_sched s c sched) = alone s c.
  Proof.
    induction sched as [|i sched IH]; intros c; [reflexivity|]. unfold run_sched in *. cbn [fold_left].
    rewrite IH. apply alone_tick.
  Qed.

  Lemma alone_finished s c : finished c -> alone s c = map snd c.
  Proof.
    intros H. induction H as [|[t l] c Hx _ IH]; [reflexivity|]. cbn [fst] in Hx. subst t.
    unfold alone in *. cbn [map fst snd run_script fold_left]. f_equal. exact IH.
  Qed.

  (* EVERY schedule that lets all requests finish leaves each request with exactly the state it computes when run alone *)
  Theorem interleaving_irrelevant s c sched :
    finished (run_sched s c sched) -> map snd (run_sched s c sched) = alone s c.
  Proof. intros H. rewrite <- (alone_finished s _ H). apply alone_sched. Qed.

  (* at any moment of any schedule a request's state is the state of a prefix of its own script, run alone *)
  Theorem prefix_invariant s sched : forall c,
    Forall2 (fun x0 x => exists done, fst x0 = done ++ fst x /\ snd x = run_script s done (snd x0)) c (run_sched s c sched).
  Proof.
    induction sched as [|i sched IH]; intros c.
    - cbn. induction c as [|x c IHc]; constructor; [exists []; split; reflexivity|exact IHc].
    - unfold run_sched in *. cbn [fold_left].
      assert (Ht : Forall2 (fun x0 x => exists done, fst x0 = done ++ fst x /\ snd x = run_script s done (snd x0)) c (tick s c i)).
      { clear. revert i. induction c as [|[t l] c IHc]; intros i; [constructor|]. destruct i as [|i].
        - destruct t as [|st rest]; cbn [tick]; constructor.
          + exists []. split; reflexivity.
          + clear. induction c as [|x c IHc]; constructor; [exists []; split; reflexivity|exact IHc].
          + exists [st]. split; reflexivity.
          + clear. induction c as [|x c IHc]; constructor; [exists []; split; reflexivity|exact IHc].
        - cbn [tick]. constructor; [exists []; split; reflexivity|apply IHc]. }
      specialize (IH (tick s c i)). clear -Ht IH.
      revert IH. generalize (fold_left (tick s) sched (tick s c i)). generalize dependent (tick s c i).
      induction c as [|x0 c IHc]; intros c1 Ht c2 H2.
      + inversion Ht; subst. inversion H2; subst. constructor.
      + inversion Ht as [|? x1 ? c1' Hx Hc]; subst. inversion H2 as [|? x2 ? c2' Hy Hd]; subst. constructor.
        * destruct Hx as (d1 & E1 & F1). destruct Hy as (d2 & E2 & F2). exists (d1 ++ d2). split.
          -- rewrite E1, E2, app_assoc. reflexivity.
          -- rewrite F2, F1. unfold run_script. rewrite fold_left_app. reflexivity.
        * apply (IHc c1' Hc c2' Hd).
  Qed.

  (* a sequence of requests: the dataset is unchanged and each response is what a fresh server would answer *)
  Theorem history_irrelevant s (init : L) (ts : list (script Sh L)) :
    serve_all s init ts = (s, map (fun t => run_script s t init) ts).
  Proof.
    induction ts as [|t ts IH]; [reflexivity|]. cbn [serve_all serve]. rewrite IH. reflexivity.
  Qed.
End Proofs.
