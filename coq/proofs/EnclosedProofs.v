(* unpack_enclosed reads back the reference encoding of a variable nested in k single-column sequences. *)
From PydapV Require Import Base Words WordsProofs Xdr XdrProofs Enclosed.

Lemma wf_list_single c r : wf_list [c] r -> exists v, r = [v] /\ wf c v.
Proof.
  destruct r as [|v [|v' r]]; cbn; try contradiction.
  - intros [H _]. exists v. split; [reflexivity|exact H].
  - intros [_ []].
Qed.

Lemma xdr_l_single c v : xdr_l [c] [v] = (do a <- xdr c v; Some (a ++ [])).
Proof. reflexivity. Qed.

(* one level: if [item] reads back every well-formed value of declaration c, the marker loop reads back every sequence of
   single-column records of c *)
Lemma enc_loop_ok c item :
  (forall v rest, wf c v -> exists b, xdr c v = Some b /\ item (b ++ rest) = Some (v, rest)) ->
  forall rows n rest, wf (DSeq [c]) (VSeq rows) -> List.length rows < n ->
  exists b, xdr (DSeq [c]) (VSeq rows) = Some b /\ enc_loop item n (b ++ rest) = Some (rows, rest).
Proof.
  intros Hitem rows; induction rows as [|r rs IH]; intros n rest Hw Hn.
  - exists ENDM. split; [reflexivity|]. destruct n as [|n]; [lia|]. reflexivity.
  - rewrite wf_seq_cons in Hw. destruct Hw as [Hr Hrs].
    destruct (wf_list_single c r Hr) as (v & -> & Hv).
    destruct n as [|n]; [cbn in Hn; lia|].
    destruct (IH n rest Hrs ltac:(cbn in Hn; lia)) as (b2 & E2 & L2).
    destruct (Hitem v (b2 ++ rest) Hv) as (b1 & E1 & U1).
    rewrite xdr_seq_cons, xdr_l_single, E1. cbn [obind]. rewrite E2. cbn [obind].
    eexists; split; [reflexivity|].
    cbn [enc_loop]. rewrite app_nil_r. rewrite <- !app_assoc. rewrite (take_app 4 START) by reflexivity.
    cbn [obind fst snd]. rewrite beqb_refl, U1. cbn [obind fst snd]. rewrite L2. reflexivity.
Qed.

Theorem enclosed_inverts_xdr : forall k d v rest,
  wf (wrap k d) v ->
  exists b, xdr (wrap k d) v = Some b /\ unpack_enclosed k d (b ++ rest) = Some (v, rest).
Proof.
  induction k as [|k IH]; intros d v rest Hw.
  - cbn [wrap unpack_enclosed] in *. apply unpack_xdr; exact Hw.
  - cbn [wrap] in *. destruct v as [| |rows]; try contradiction.
    pose proof (enc_loop_ok (wrap k d) (unpack_enclosed k d) (fun v rest Hv => IH d v rest Hv)) as G.
    destruct (G rows (S (List.length rows)) rest Hw ltac:(lia)) as (b & Eb & _).
    destruct (G rows (S (List.length (b ++ rest))) rest Hw) as (b' & Eb' & Lb').
    { pose proof (xdr_seq_length _ rows b Eb). rewrite app_length. lia. }
    rewrite Eb in Eb'. injection Eb' as <-. exists b. split; [exact Eb|].
    cbn [unpack_enclosed]. rewrite Lb'. reflexivity.
Qed.

(* the same through pydap's own encoder *)
Corollary enclosed_inverts_dods k d v rest :
  wf (wrap k d) v -> exists b, dods (wrap k d) v = Some b /\ unpack_enclosed k d (b ++ rest) = Some (v, rest).
Proof. intros H. rewrite dods_is_xdr. now apply enclosed_inverts_xdr. Qed.

(* every record of a well-formed value of  wrap (S k) d  holds exactly one item *)
Lemma items_total k d rows : wf (wrap (S k) d) (VSeq rows) -> exists xs, items (VSeq rows) = Some xs /\ rows = map (fun x => [x]) xs.
Proof.
  cbn [wrap]. induction rows as [|r rs IH]; intros Hw.
  - exists []. split; reflexivity.
  - rewrite wf_seq_cons in Hw. destruct Hw as [Hr Hrs]. destruct (wf_list_single _ r Hr) as (v & -> & _).
    destruct (IH Hrs) as (xs & E & ->). exists (v :: xs). cbn [items omap] in *. rewrite E. split; reflexivity.
Qed.
