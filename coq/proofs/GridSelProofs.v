(* Proofs about model/GridSel.v: every listed map of a sliced grid is sliced along the axis that bears its name. *)
From PydapV Require Import Base Slices Quote GridSel SliceArith SliceProofs.
Open Scope Z_scope.

Lemma chars_eqb_eq a b : chars_eqb a b = true <-> a = b.
Proof.
  revert b; induction a as [|x a IH]; intros [|y b]; cbn; split; intro H; try reflexivity; try discriminate.
  - apply andb_true_iff in H as [H1 H2]. apply Ascii.eqb_eq in H1. apply IH in H2. subst; reflexivity.
  - injection H as -> ->. apply andb_true_iff; split; [apply Ascii.eqb_refl | apply IH; reflexivity].
Qed.

Lemma chars_eqb_refl a : chars_eqb a a = true.
Proof. apply chars_eqb_eq; reflexivity. Qed.

Lemma index_of_In x l : In x l -> exists j, index_of x l = Some j /\ nth_error l j = Some x.
Proof.
  induction l as [|y r IH]; intros Hin; [destruct Hin|].
  cbn [index_of]. destruct (chars_eqb x y) eqn:E.
  - apply chars_eqb_eq in E; subst. exists O; split; reflexivity.
  - destruct Hin as [->|Hin]; [rewrite chars_eqb_refl in E; discriminate|].
    destruct (IH Hin) as [j [Hj Hn]]. exists (S j). rewrite Hj. split; [reflexivity | exact Hn].
Qed.

Lemma index_of_Some x l j : index_of x l = Some j -> nth_error l j = Some x.
Proof.
  revert j; induction l as [|y r IH]; intros j; cbn [index_of]; [discriminate|].
  destruct (chars_eqb x y) eqn:E.
  - intros [= <-]. apply chars_eqb_eq in E; subst; reflexivity.
  - destruct (index_of x r) as [k|]; cbn; [|discriminate]. intros [= <-]. cbn. apply IH; reflexivity.
Qed.

Lemma index_of_None x l : index_of x l = None -> ~ In x l.
Proof.
  intros H Hin. destruct (index_of_In x l Hin) as [j [Hj _]]. congruence.
Qed.

Lemma existsb_chars x l : existsb (chars_eqb x) l = true <-> In x l.
Proof.
  rewrite existsb_exists. split.
  - intros [y [Hy E]]. apply chars_eqb_eq in E; subst; exact Hy.
  - intros H. exists x; split; [exact H | apply chars_eqb_refl].
Qed.

Lemma nodupb_NoDup l : nodupb l = true <-> NoDup l.
Proof.
  induction l as [|x r IH]; cbn [nodupb]; split; intro H; try reflexivity; try constructor.
  - apply andb_true_iff in H as [H1 H2]. apply negb_true_iff in H1.
    intro Hin. apply existsb_chars in Hin. congruence.
  - apply andb_true_iff in H as [_ H2]. apply IH; exact H2.
  - inversion H as [|? ? Hn Hr]; subst. apply andb_true_iff; split.
    + apply negb_true_iff. destruct (existsb (chars_eqb x) r) eqn:E; [|reflexivity].
      apply existsb_chars in E. contradiction.
    + apply IH; exact Hr.
Qed.

(* NoDup: the index found is THE position of the name *)
Lemma index_of_unique x l j : NoDup l -> nth_error l j = Some x -> index_of x l = Some j.
Proof.
  intros Hnd; revert j; induction Hnd as [|y r Hn Hr IH]; intros j Hj; [destruct j; discriminate|].
  cbn [index_of]. destruct j as [|j]; cbn in Hj.
  - injection Hj as ->. rewrite chars_eqb_refl; reflexivity.
  - destruct (chars_eqb x y) eqn:E.
    + apply chars_eqb_eq in E; subst. exfalso; apply Hn. eapply nth_error_In; exact Hj.
    + rewrite (IH j Hj); reflexivity.
Qed.

Lemma usable_dims_ok dims n :
  List.length dims = n -> NoDup (map quote dims) -> usable_dims dims n = map quote dims.
Proof.
  intros Hl Hnd. unfold usable_dims. rewrite map_length, Hl, Nat.eqb_refl.
  apply nodupb_NoDup in Hnd. rewrite Hnd. reflexivity.
Qed.

Definition follows (qd : list chars) (key : list item) (m : chars) (p : chars * option item) : Prop :=
  fst p = m /\ exists j it, nth_error qd j = Some m /\ nth_error key j = Some it /\ snd p = Some it.

Lemma pair_maps_named qd key : List.length qd = List.length key ->
  forall maps i, (forall m, In m maps -> In m qd) -> Forall2 (follows qd key) maps (pair_maps qd key i maps).
Proof.
  intros Hl maps; induction maps as [|m r IH]; intros i Hin; cbn [pair_maps]; [constructor|].
  destruct (index_of_In m qd (Hin m (or_introl eq_refl))) as [j [Hj Hn]]. rewrite Hj.
  constructor.
  - split; [reflexivity|]. assert (Hlt : (j < List.length key)%nat).
    { rewrite <- Hl. apply nth_error_Some. congruence. }
    destruct (nth_error key j) as [it|] eqn:Hk; [|apply nth_error_None in Hk; lia].
    exists j, it. repeat split; assumption.
  - apply IH. intros m' H'. apply Hin; right; exact H'.
Qed.

Theorem grid_maps_follow_their_axes : forall shape dims idx maps,
  Forall (fun N => 0 <= N) shape ->
  one_ellipsis idx ->
  Forall2 item_in_domain shape (np_expand idx (List.length shape)) ->
  List.length dims = List.length shape ->
  NoDup (map quote dims) ->
  (forall m, In m maps -> In m (map quote dims)) ->
  exists key prs,
    grid_getitem shape dims idx maps = Some (key, prs) /\
    List.length key = List.length shape /\
    np_select_axes shape key = np_select shape idx /\
    Forall2 (follows (map quote dims) key) maps prs.
Proof.
  intros shape dims idx maps Hs He Hd Hl Hnd Hin.
  destruct (fix_slice_preserves_tuple shape idx Hs He Hd) as [key [Hf [_ [Hk Hsel]]]].
  exists key, (pair_maps (map quote dims) key 1 maps).
  unfold grid_getitem. rewrite Hf. cbn [obind].
  rewrite (usable_dims_ok dims (List.length key)) by congruence.
  repeat split; try assumption.
  apply pair_maps_named; [rewrite map_length; congruence | exact Hin].
Qed.

(* an array without (usable) dimension names: the maps are paired with the axes by position, as far as there are axes *)
Lemma pair_maps_positional key : forall maps i,
  (i + List.length maps <= S (List.length key))%nat -> (1 <= i)%nat ->
  pair_maps [] key i maps = map (fun p => (fst p, Some (snd p))) (combine maps (skipn (i - 1) key)).
Proof.
  intros maps; induction maps as [|m r IH]; intros i Hle Hi; cbn [pair_maps index_of]; [reflexivity|].
  cbn [List.length] in Hle.
  assert (Hik : (i <= List.length key)%nat) by lia.
  apply Nat.leb_le in Hik as Hb. rewrite Hb.
  destruct (skipn (i - 1) key) as [|it rest] eqn:Hsk.
  - exfalso. assert (List.length (skipn (i - 1) key) = 0%nat) by (rewrite Hsk; reflexivity).
    rewrite skipn_length in H. lia.
  - cbn [combine map fst snd]. f_equal.
    + f_equal. pose proof (nth_error_skipn_0 := fun (A : Type) (l : list A) n => eq_refl (nth_error (skipn n l) 0)).
      clear nth_error_skipn_0.
      assert (nth_error key (i - 1) = nth_error (skipn (i - 1) key) 0).
      { clear. generalize (i - 1)%nat as n. intros n; revert key; induction n as [|n IHn]; intros [|x key]; cbn; try reflexivity.
        apply IHn. }
      rewrite H, Hsk. reflexivity.
    + rewrite IH by lia. replace (S i - 1)%nat with (S (i - 1)) by lia.
      assert (skipn (S (i - 1)) key = rest).
      { clear -Hsk. revert key Hsk. generalize (i - 1)%nat as n. intros n; induction n as [|n IHn]; intros [|x key] Hsk; cbn in *; try discriminate.
        - injection Hsk as _ ->; reflexivity.
        - apply IHn; exact Hsk. }
      rewrite H. reflexivity.
Qed.

Theorem grid_maps_positional_without_names : forall shape idx key maps,
  fix_slice idx shape = Some key ->
  (List.length maps <= List.length key)%nat ->
  grid_getitem shape [] idx maps = Some (key, map (fun p => (fst p, Some (snd p))) (combine maps key)).
Proof.
  intros shape idx key maps Hf Hle. unfold grid_getitem. rewrite Hf. cbn [obind].
  assert (usable_dims [] (List.length key) = []) as ->.
  { unfold usable_dims. cbn. destruct (List.length key); reflexivity. }
  rewrite pair_maps_positional by lia. cbn [Nat.sub skipn]. reflexivity.
Qed.

(* the positional pairing alone (the code before the repair 7b14c4d) is wrong on a narrowed grid *)
Theorem positional_pairing_refuted :
  exists (dims : list chars) (key : list item) (maps : list chars),
    NoDup (map quote dims) /\ List.length dims = List.length key /\ (forall m, In m maps -> In m (map quote dims)) /\
    pair_maps [] key 1 maps <> pair_maps (usable_dims dims (List.length key)) key 1 maps.
Proof.
  exists [s2l "m0"; s2l "m1"], [ISlice (mkSlice (Some 1) (Some 3) (Some 1)); ISlice (mkSlice (Some 0) (Some 2) (Some 1))], [s2l "m1"].
  split; [|split; [reflexivity|split]].
  - apply nodupb_NoDup. vm_compute. reflexivity.
  - intros m [<-|[]]. vm_compute. right; left; reflexivity.
  - vm_compute. discriminate.
Qed.
