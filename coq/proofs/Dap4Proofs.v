(* C10: a DAP4 response decodes to the served values for every chunk partition and byte order. *)
From PydapV Require Import Base Words WordsProofs Dap4.
From Coq Require Import Nnat Znat.
Open Scope nat_scope.

Definition small (p : bytes) : Prop := (N.of_nat (List.length p) < 256 ^ 3)%N.

(* ---------------------------------------------------------------- headers *)
Lemma header_chunk fl p rest :
  (fl < 256)%N -> small p ->
  header_of (firstn 4 (chunk fl p ++ rest)) = Some (fl, List.length p).
Proof.
  intros Hfl Hp. unfold chunk. cbn [be_enc app firstn header_of].
  rewrite val_byte, N.mod_small by assumption.
  change [byte_of (N.of_nat (List.length p) / 256 ^ N.of_nat 2); byte_of (N.of_nat (List.length p) / 256 ^ N.of_nat 1);
          byte_of (N.of_nat (List.length p) / 256 ^ N.of_nat 0)] with (be_enc 3 (N.of_nat (List.length p))).
  rewrite be_dec_enc by exact Hp. now rewrite Nat2N.id.
Qed.

Lemma skipn4_chunk fl p rest : skipn 4 (chunk fl p ++ rest) = p ++ rest.
Proof. unfold chunk. cbn [be_enc app skipn]. reflexivity. Qed.

Lemma flags_facts little last :
  (flags_of little last < 256)%N /\ chunk_last (flags_of little last) = last /\
  chunk_little (flags_of little last) = little.
Proof. destruct little, last; repeat split; reflexivity. Qed.

Lemma firstn_app_exact {A} (a b : list A) : firstn (List.length a) (a ++ b) = a.
Proof. rewrite firstn_app, Nat.sub_diag, firstn_all. cbn. apply app_nil_r. Qed.
Lemma skipn_app_exact {A} (a b : list A) : skipn (List.length a) (a ++ b) = b.
Proof. rewrite skipn_app, Nat.sub_diag, skipn_all. reflexivity. Qed.

(* ---------------------------------------------------------------- reassembly *)
Lemma s2b_chunks little : forall parts rest fuel,
  parts <> [] -> Forall small parts -> List.length parts <= fuel ->
  s2b fuel (data_chunks little parts ++ rest) = Some (List.concat parts).
Proof.
  induction parts as [|p ps IH]; intros rest fuel Hne Hs Hf; [congruence|].
  inversion Hs as [|? ? Hp Hps]; subst.
  destruct (flags_facts little true) as (Ft1 & Ft2 & _).
  destruct (flags_facts little false) as (Ff1 & Ff2 & _).
  destruct fuel as [|fuel]; [cbn in Hf; lia|].
  destruct ps as [|q ps].
  - cbn [data_chunks List.concat s2b].
    destruct (chunk (flags_of little true) p ++ rest) eqn:E; [unfold chunk in E; discriminate|]. rewrite <- E.
    rewrite header_chunk by assumption. rewrite skipn4_chunk, Ft2, firstn_app_exact. now rewrite app_nil_r.
  - change (data_chunks little (p :: q :: ps)) with (chunk (flags_of little false) p ++ data_chunks little (q :: ps)).
    rewrite <- app_assoc. cbn [s2b].
    destruct (chunk (flags_of little false) p ++ data_chunks little (q :: ps) ++ rest) eqn:E;
      [unfold chunk in E; discriminate|]. rewrite <- E.
    rewrite header_chunk by assumption. rewrite skipn4_chunk, Ff2, firstn_app_exact, skipn_app_exact.
    rewrite IH; [reflexivity|discriminate|assumption|cbn in Hf |- *; lia].
Qed.

Lemma data_chunks_length little parts : List.length parts <= List.length (data_chunks little parts).
Proof.
  induction parts as [|p ps IH]; [cbn; lia|]. destruct ps as [|q ps].
  - cbn [data_chunks]. unfold chunk. cbn. lia.
  - change (data_chunks little (p :: q :: ps)) with (chunk (flags_of little false) p ++ data_chunks little (q :: ps)).
    rewrite app_length. unfold chunk at 1. cbn [List.length] in *. lia.
Qed.

Theorem reassemble little parts :
  parts <> [] -> Forall small parts ->
  stream2bytearray (data_chunks little parts) = Some (List.concat parts).
Proof.
  intros Hne Hs. unfold stream2bytearray. rewrite <- (app_nil_r (data_chunks little parts)) at 2.
  apply s2b_chunks; try assumption. pose proof (data_chunks_length little parts). lia.
Qed.

(* ---------------------------------------------------------------- elements *)
Lemma enc_elem_length little t v : List.length (enc_elem little t v) = width t.
Proof. destruct v; apply enc_length. Qed.

Lemma width_pos t : 0 < width t. Proof. destruct t; cbn; lia. Qed.

Lemma dec_enc_elem little t v : in_range t v -> dec_elem little t (enc_elem little t v) = v.
Proof.
  destruct v as [z|n]; cbn [in_range enc_elem]; intros [Hf Hr]; unfold dec_elem; rewrite Hf.
  - rewrite dec_enc by apply to_unsigned_bound.
    destruct (is_signed t).
    + f_equal. apply signed_roundtrip; [apply width_pos|assumption].
    + f_equal. now apply unsigned_roundtrip.
  - now rewrite dec_enc.
Qed.

Lemma pieces_flat_map little t vals rest :
  pieces (width t) (List.length vals) (flat_map (enc_elem little t) vals ++ rest) = map (enc_elem little t) vals.
Proof.
  induction vals as [|v vals IH]; [reflexivity|].
  cbn [List.length pieces flat_map map]. rewrite <- app_assoc.
  rewrite <- (enc_elem_length little t v) at 1 3. rewrite firstn_app_exact, skipn_app_exact. now rewrite IH.
Qed.

Lemma flat_map_enc_length little t vals :
  List.length (flat_map (enc_elem little t) vals) = List.length vals * width t.
Proof.
  induction vals as [|v vals IH]; [reflexivity|]. cbn [flat_map List.length].
  rewrite app_length, enc_elem_length, IH. lia.
Qed.

Definition var_ok (x : var4 * list value * bytes) : Prop :=
  let '(v, vals, cks) := x in
  vcount v = List.length vals /\ List.length cks = 4 /\ Forall (in_range (vty v)) vals.

Lemma decode_vars_payload little : forall vars rest,
  Forall var_ok vars ->
  decode_vars little (payload little vars ++ rest) (map (fun x => fst (fst x)) vars) =
  Some (map (fun x => snd (fst x)) vars).
Proof.
  induction vars as [|[[v vals] cks] vars IH]; intros rest H; [reflexivity|].
  inversion H as [|? ? Hok Hrest]; subst. unfold var_ok in Hok. destruct Hok as (Hc & Hk & Hr).
  cbn [payload map fst snd decode_vars]. rewrite <- !app_assoc.
  set (E := flat_map (enc_elem little (vty v)) vals).
  assert (HE : List.length E = vcount v * width (vty v)) by (unfold E; rewrite flat_map_enc_length; lia).
  rewrite <- HE. rewrite !firstn_app_exact. rewrite Nat.eqb_refl.
  rewrite skipn_app_exact.
  assert (Hck : forall X, List.length (firstn 4 (cks ++ X)) = 4) by (intros X; rewrite firstn_length, app_length; lia).
  rewrite Hck. cbn [Nat.eqb orb andb].
  replace (List.length E + 4) with (List.length (E ++ cks)) by (rewrite app_length; lia).
  rewrite (app_assoc E cks). rewrite skipn_app_exact. rewrite IH by assumption.
  f_equal. f_equal. unfold E. rewrite Hc. rewrite <- (app_nil_r (flat_map _ vals)).
  rewrite pieces_flat_map, map_map. rewrite <- (map_id vals) at 2. apply map_ext_in.
  intros x Hx. apply dec_enc_elem. rewrite Forall_forall in Hr. now apply Hr.
Qed.

(* ---------------------------------------------------------------- the whole response *)
Theorem decode_dap4 little dmr parts vars :
  small dmr -> parts <> [] -> Forall small parts -> Forall var_ok vars ->
  List.concat parts = payload little vars ->
  unpack_dap4 (response little dmr parts) (map (fun x => fst (fst x)) vars) =
  Some (little, dmr, map (fun x => snd (fst x)) vars).
Proof.
  intros Hd Hne Hs Hv Hc. unfold unpack_dap4, response.
  destruct (flags_facts little false) as (Ff1 & _ & Ff3).
  rewrite header_chunk by assumption. rewrite skipn4_chunk, take_app by reflexivity.
  rewrite reassemble by assumption. rewrite Hc, Ff3.
  rewrite <- (app_nil_r (payload little vars)). rewrite decode_vars_payload by assumption. reflexivity.
Qed.

(* ================================================================= truncation (C09, DAP4 side) *)
Definition is_prefix (a b : bytes) : Prop := exists t, b = a ++ t.

Lemma is_prefix_refl a : is_prefix a a.
Proof. exists []. now rewrite app_nil_r. Qed.
Lemma is_prefix_nil a : is_prefix [] a.
Proof. now exists a. Qed.

Lemma firstn_prefix {A} n (l : list A) : exists t, l = firstn n l ++ t.
Proof. exists (skipn n l). symmetry. apply firstn_skipn. Qed.

Lemma header_of_some h t size : header_of h = Some (t, size) -> List.length h = 4.
Proof. destruct h as [|a [|b [|c [|d [|e h]]]]]; cbn; intros H; try discriminate; reflexivity. Qed.

Lemma s2b_fuel : forall fuel1 fuel2 data,
  List.length data < fuel1 -> List.length data < fuel2 -> s2b fuel1 data = s2b fuel2 data.
Proof.
  induction fuel1 as [|f1 IH]; intros fuel2 data H1 H2; [lia|].
  destruct fuel2 as [|f2]; [lia|]. cbn [s2b].
  destruct data as [|x data]; [reflexivity|].
  destruct (header_of (firstn 4 (x :: data))) as [[t size]|] eqn:Eh; [|reflexivity].
  destruct (chunk_last t); [reflexivity|].
  assert (Hl : List.length (skipn size (skipn 4 (x :: data))) < List.length (x :: data)).
  { apply header_of_some in Eh. rewrite firstn_length in Eh. rewrite !skipn_length. cbn [List.length] in *. lia. }
  rewrite (IH f2); [reflexivity|lia|lia].
Qed.

Lemma firstn_firstn_min {A} (l : list A) a b : firstn a (firstn b l) = firstn (Nat.min a b) l.
Proof. apply firstn_firstn. Qed.

Lemma skipn_firstn_comm' {A} (l : list A) m n : skipn m (firstn n l) = firstn (n - m) (skipn m l).
Proof. apply skipn_firstn_comm. Qed.

(* reassembling a truncated chunk stream fails or yields a prefix of the full buffer *)
Lemma s2b_prefix : forall fuel data k buf,
  s2b fuel data = Some buf ->
  s2b fuel (firstn k data) = None \/ exists b', s2b fuel (firstn k data) = Some b' /\ is_prefix b' buf.
Proof.
  induction fuel as [|fuel IH]; intros data k buf H.
  - cbn in *. injection H as <-. right. exists []. split; [reflexivity|apply is_prefix_nil].
  - cbn [s2b] in H |- *.
    destruct (firstn k data) as [|y d'] eqn:Ed; [right; exists []; split; [reflexivity|now exists buf]|].
    rewrite <- Ed. clear y d' Ed.
    destruct data as [|x data]; [rewrite firstn_nil; cbn; left; reflexivity|].
    destruct (Nat.lt_ge_cases k 4) as [Hk|Hk].
    + left. destruct (header_of (firstn 4 (firstn k (x :: data)))) as [[t s]|] eqn:Eh; [|reflexivity].
      apply header_of_some in Eh. rewrite !firstn_length in Eh. lia.
    + rewrite firstn_firstn_min. replace (Nat.min 4 k) with 4 by lia.
      destruct (header_of (firstn 4 (x :: data))) as [[t size]|] eqn:Eh; [|discriminate].
      rewrite skipn_firstn_comm'. set (body := skipn 4 (x :: data)) in *.
      rewrite firstn_firstn_min.
      destruct (chunk_last t).
      * injection H as <-. right. eexists; split; [reflexivity|].
        destruct (Nat.le_ge_cases size (k - 4)) as [Hs|Hs].
        -- replace (Nat.min size (k - 4)) with size by lia. apply is_prefix_refl.
        -- replace (Nat.min size (k - 4)) with (k - 4) by lia.
           replace (firstn (k - 4) body) with (firstn (k - 4) (firstn size body))
             by (rewrite firstn_firstn_min; f_equal; lia).
           apply firstn_prefix.
      * destruct (s2b fuel (skipn size body)) as [rest|] eqn:Er; [|discriminate]. injection H as <-.
        rewrite skipn_firstn_comm'.
        destruct (IH (skipn size body) (k - 4 - size) rest Er) as [Hn|(b' & Hb & (t' & Ht))].
        -- left. now rewrite Hn.
        -- right. rewrite Hb. eexists; split; [reflexivity|].
           destruct (Nat.le_ge_cases size (k - 4)) as [Hs|Hs].
           ++ replace (Nat.min size (k - 4)) with size by lia. exists t'. rewrite Ht. now rewrite app_assoc.
           ++ (* the cut falls inside this chunk: nothing follows it *)
              replace (k - 4 - size) with 0 in Hb by lia. cbn [firstn] in Hb.
              assert (b' = []) by (destruct fuel; cbn in Hb; congruence). subst b'. rewrite app_nil_r.
              replace (Nat.min size (k - 4)) with (k - 4) by lia.
              replace (firstn (k - 4) body) with (firstn (k - 4) (firstn size body))
                by (rewrite firstn_firstn_min; f_equal; lia).
              destruct (firstn_prefix (k - 4) (firstn size body)) as (u & Hu).
              exists (u ++ rest). rewrite Hu at 1. now rewrite app_assoc.
Qed.

Lemma is_prefix_firstn a b n : is_prefix a b -> is_prefix (firstn n a) (firstn n b).
Proof.
  intros (t & ->). rewrite firstn_app. now exists (firstn (n - List.length a) t).
Qed.
Lemma is_prefix_skipn a b n : is_prefix a b -> is_prefix (skipn n a) (skipn n b).
Proof.
  intros (t & ->). rewrite skipn_app. now exists (skipn (n - List.length a) t).
Qed.
Lemma is_prefix_same_length a b : is_prefix a b -> List.length a = List.length b -> a = b.
Proof.
  intros (t & ->) H. rewrite app_length in H. destruct t; [now rewrite app_nil_r|cbn in H; lia].
Qed.

(* decoding the variables from a prefix of a decodable buffer fails or gives the same values *)
Lemma decode_vars_prefix little : forall vars buf' buf r,
  is_prefix buf' buf -> decode_vars little buf vars = Some r ->
  decode_vars little buf' vars = None \/ decode_vars little buf' vars = Some r.
Proof.
  induction vars as [|v vs IH]; intros buf' buf r Hp Hfull; [right; exact Hfull|].
  cbn [decode_vars] in *. set (cnt := vcount v * width (vty v)) in *.
  destruct ((List.length (firstn cnt buf') =? cnt) &&
            ((List.length (firstn 4 (skipn cnt buf')) =? 0) || (List.length (firstn 4 (skipn cnt buf')) =? 4))) eqn:E1;
    [|now left].
  apply andb_true_iff in E1 as [E1 _]. apply Nat.eqb_eq in E1.
  assert (Hs : firstn cnt buf' = firstn cnt buf).
  { apply is_prefix_same_length; [now apply is_prefix_firstn|].
    rewrite E1. rewrite firstn_length in *. destruct Hp as (t & ->). rewrite app_length. lia. }
  destruct ((List.length (firstn cnt buf) =? cnt) &&
            ((List.length (firstn 4 (skipn cnt buf)) =? 0) || (List.length (firstn 4 (skipn cnt buf)) =? 4))); [|discriminate].
  destruct (decode_vars little (skipn (cnt + 4) buf) vs) as [rt|] eqn:Et; [|discriminate].
  destruct (IH (skipn (cnt + 4) buf') (skipn (cnt + 4) buf) rt (is_prefix_skipn _ _ _ Hp) Et) as [->| ->];
    [now left|]. right. rewrite Hs. exact Hfull.
Qed.

(* A DAP4 response cut at ANY offset either fails to decode or decodes to exactly what the complete
   response decodes to (it never yields shortened or altered values). *)
Theorem dap4_truncation_safe raw vars k res :
  unpack_dap4 raw vars = Some res ->
  unpack_dap4 (firstn k raw) vars = None \/ unpack_dap4 (firstn k raw) vars = Some res.
Proof.
  unfold unpack_dap4. intros H.
  destruct (Nat.lt_ge_cases k 4) as [Hk|Hk].
  { left. destruct (header_of (firstn 4 (firstn k raw))) as [[t s]|] eqn:Eh; [|reflexivity].
    apply header_of_some in Eh. rewrite !firstn_length in Eh. lia. }
  rewrite firstn_firstn_min. replace (Nat.min 4 k) with 4 by lia.
  destruct (header_of (firstn 4 raw)) as [[t dl]|] eqn:Eh; [|discriminate].
  rewrite skipn_firstn_comm'. set (body := skipn 4 raw) in *.
  unfold take in *. destruct (dl <=? List.length body) eqn:E1; [|discriminate].
  destruct (dl <=? List.length (firstn (k - 4) body)) eqn:E2; [|now left].
  apply Nat.leb_le in E1, E2. rewrite firstn_length in E2.
  rewrite firstn_firstn_min. replace (Nat.min dl (k - 4)) with dl by lia.
  rewrite skipn_firstn_comm'. set (data := skipn dl body) in *.
  unfold stream2bytearray in *.
  destruct (s2b (S (List.length data)) data) as [buf|] eqn:Es; [|discriminate].
  assert (Es' : s2b (S (List.length data)) (firstn (k - 4 - dl) data) =
                s2b (S (List.length (firstn (k - 4 - dl) data))) (firstn (k - 4 - dl) data)).
  { apply s2b_fuel; rewrite ?firstn_length; lia. }
  rewrite <- Es'.
  destruct (s2b_prefix _ _ (k - 4 - dl) _ Es) as [->|(b' & -> & Hp)]; [now left|].
  destruct (decode_vars (chunk_little t) buf vars) as [vals|] eqn:Ev; [|discriminate].
  destruct (decode_vars_prefix (chunk_little t) vars b' buf vals Hp Ev) as [->| ->]; [now left|].
  right. exact H.
Qed.
