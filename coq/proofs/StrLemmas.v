(* String lemmas: split/join, decimal characters. *)
From PydapV Require Import Base.
From Coq Require Import DecimalString DecimalZ DecimalPos.
Open Scope Z_scope.

Lemma s2l_app a b : s2l (a ++ b)%string = s2l a ++ s2l b.
Proof. induction a as [|c a IH]; cbn; [reflexivity|now rewrite IH]. Qed.

Lemma l2s_s2l s : l2s (s2l s) = s.
Proof. apply string_of_list_ascii_of_string. Qed.

Lemma parse_print_dec z : parse_dec (print_dec z) = Some z.
Proof.
  unfold parse_dec, print_dec. rewrite NilZero.isi.
  - unfold option_map. f_equal. apply DecimalZ.of_to.
  - destruct z; cbn; try discriminate. intros E; injection E. apply DecimalPos.Unsigned.to_uint_nonnil.
  - destruct z; cbn; try discriminate. intros E; injection E. apply DecimalPos.Unsigned.to_uint_nonnil.
Qed.

(* ---- characters of a printed integer ---- *)
Definition dec_char (c : ascii) : Prop :=
  c <> "]"%char /\ c <> "["%char /\ c <> ":"%char /\ c <> ","%char.

Lemma uint_chars d : Forall dec_char (s2l (NilEmpty.string_of_uint d)).
Proof. induction d; cbn; constructor; try assumption; repeat split; discriminate. Qed.

Lemma print_dec_chars z : Forall dec_char (s2l (print_dec z)).
Proof.
  unfold print_dec, NilZero.string_of_int, NilZero.string_of_uint.
  destruct (Z.to_int z) as [d|d]; [destruct d|destruct d; cbn; constructor];
    try apply uint_chars; try (repeat split; discriminate);
    cbn; repeat constructor; try discriminate; try apply uint_chars;
    try (destruct d; cbn; repeat constructor; try discriminate; apply uint_chars).
Qed.

(* ---- split / join ---- *)
Fixpoint join (sep : chars) (ps : list chars) : chars :=
  match ps with
  | [] => []
  | [p] => p
  | p :: ps' => p ++ sep ++ join sep ps'
  end.

Lemma prefixb_app p t : prefixb p (p ++ t) = true.
Proof. induction p as [|c p IH]; cbn; [reflexivity|]. now rewrite Ascii.eqb_refl, IH. Qed.

Lemma split_go_skip sep cur l t : split_go sep cur (List.length l) (l ++ t) = split_go sep cur O t.
Proof.
  induction l as [|c l IH]; cbn [List.length app]; [reflexivity|].
  cbn [split_go]. exact IH.
Qed.

Lemma split_go_piece c1 r cur p t :
  Forall (fun c => c <> c1) p ->
  split_go (c1 :: r) cur O (p ++ t) = split_go (c1 :: r) (rev p ++ cur) O t.
Proof.
  intros H; revert cur; induction H as [|c p Hc Hp IH]; intros cur; [reflexivity|].
  cbn [app split_go prefixb].
  replace (ascii_eqb c1 c) with false.
  2:{ symmetry. apply Ascii.eqb_neq. congruence. }
  cbn [andb]. rewrite IH. cbn [rev]. now rewrite <- app_assoc.
Qed.

Lemma split_go_sep c1 r cur t :
  split_go (c1 :: r) cur O ((c1 :: r) ++ t) = rev cur :: split_go (c1 :: r) [] O t.
Proof.
  cbn [app split_go].
  change (prefixb (c1 :: r) (c1 :: r ++ t)) with (prefixb (c1 :: r) ((c1 :: r) ++ t)).
  rewrite prefixb_app. f_equal.
  replace (List.length (c1 :: r) - 1)%nat with (List.length r) by (cbn [List.length]; lia).
  apply split_go_skip.
Qed.

Lemma split_join c1 r cur p ps :
  Forall (Forall (fun c => c <> c1)) (p :: ps) ->
  split_go (c1 :: r) cur O (join (c1 :: r) (p :: ps)) = (rev cur ++ p) :: ps.
Proof.
  revert cur p; induction ps as [|q qs IH]; intros cur p H.
  - cbn [join]. inversion H; subst.
    rewrite <- (app_nil_r p) at 1. rewrite split_go_piece by assumption.
    cbn [split_go]. now rewrite rev_app_distr, rev_involutive.
  - inversion H as [|? ? Hp Hrest]; subst.
    change (join (c1 :: r) (p :: q :: qs)) with (p ++ (c1 :: r) ++ join (c1 :: r) (q :: qs)).
    rewrite split_go_piece by assumption. rewrite split_go_sep.
    rewrite rev_app_distr, rev_involutive. f_equal.
    rewrite IH by assumption. reflexivity.
Qed.

Lemma split_on_join c1 r ps :
  ps <> [] -> Forall (Forall (fun c => c <> c1)) ps -> split_on (c1 :: r) (join (c1 :: r) ps) = ps.
Proof.
  destruct ps as [|p ps]; [congruence|]. intros _ H. unfold split_on.
  now rewrite split_join.
Qed.

Lemma strip_ends_wrap a x b : strip_ends (a :: x ++ [b]) = x.
Proof. unfold strip_ends. cbn [tl]. apply removelast_last. Qed.
