(* apply_projection's hyperslab loop: repeated mentions are idempotent; a variable mentioned with one hyperslab (any number of
   times, anywhere in the list) holds exactly that hyperslab of its source. *)
From PydapV Require Import Base Slices IterData Projection.
Open Scope Z_scope.

Lemma slab_eqb_eq a b : slab_eqb a b = true <-> a = b.
Proof.
  unfold slab_eqb. destruct a as [a1 a2 a3], b as [b1 b2 b3]; cbn [lo hi sstep]. split.
  - intros H. apply andb_prop in H as [H H3]. apply andb_prop in H as [H1 H2].
    apply Z.eqb_eq in H1, H2, H3. now subst.
  - intros H. injection H as -> -> ->. now rewrite !Z.eqb_refl.
Qed.

Lemma pair_eqb_eq a b : pair_eqb a b = true <-> a = b.
Proof.
  unfold pair_eqb. destruct a as [v s], b as [w t]; cbn [fst snd]. split.
  - intros H. apply andb_prop in H as [H1 H2]. apply String.eqb_eq in H1. apply slab_eqb_eq in H2. now subst.
  - intros H. injection H as -> ->. rewrite String.eqb_refl. now apply slab_eqb_eq.
Qed.

Lemma mem_In x l : mem x l = true <-> In x l.
Proof.
  unfold mem. rewrite existsb_exists. split.
  - intros (y & Hy & E). apply pair_eqb_eq in E. now subst.
  - intros H. exists x. split; [exact H|]. now apply pair_eqb_eq.
Qed.

Lemma plookup_pupdate v w l st :
  plookup w (pupdate v l st) = if String.eqb w v then (match plookup v st with Some _ => Some l | None => None end) else plookup w st.
Proof.
  induction st as [|[k l0] st IH]; cbn [pupdate plookup].
  - now destruct (String.eqb w v).
  - destruct (String.eqb v k) eqn:Evk; cbn [plookup].
    + apply String.eqb_eq in Evk. subst k. destruct (String.eqb w v) eqn:Ewv; reflexivity.
    + destruct (String.eqb w k) eqn:Ewk.
      * apply String.eqb_eq in Ewk. subst k. destruct (String.eqb w v) eqn:Ewv; [|reflexivity].
        apply String.eqb_eq in Ewv. subst w. now rewrite String.eqb_refl in Evk.
      * exact IH.
Qed.

Definition known (applied : list (cname * slab)) (st : pstate) : Prop :=
  forall x, In x applied -> plookup (fst x) st <> None.

Lemma known_step applied st v s cur l :
  known applied st -> plookup v st = Some cur -> known ((v, s) :: applied) (pupdate v l st).
Proof.
  intros K E x [<-|Hx]; cbn [fst]; rewrite plookup_pupdate.
  - rewrite String.eqb_refl, E. discriminate.
  - destruct (String.eqb (fst x) v); [rewrite E; discriminate|now apply K].
Qed.

(* ---------------------------------------------------------------- a repeated mention is a no-op *)
Lemma repeated_gen bounded v s post : forall pre applied st,
  known applied st ->
  In (v, Some s) pre \/ In (v, s) applied ->
  run bounded applied st (pre ++ (v, Some s) :: post) = run bounded applied st (pre ++ post).
Proof.
  induction pre as [|[w o] pre IH]; intros applied st K H.
  - destruct H as [[]|H]. cbn [app run].
    destruct (plookup v st) as [cur|] eqn:E; [|now apply K in H].
    apply mem_In in H. now rewrite H.
  - cbn [app run]. destruct o as [t|].
    + destruct (plookup w st) as [cur|] eqn:E; [|reflexivity].
      destruct (mem (w, t) applied) eqn:M.
      * apply IH; [exact K|]. destruct H as [[H|H]|H]; [|now left|now right].
        injection H as -> ->. right. now apply mem_In.
      * destruct (slab_ok (bounded w) (Z.of_nat (List.length cur)) t); [|reflexivity].
        apply IH; [now apply known_step with cur|].
        destruct H as [[H|H]|H]; [injection H as -> ->; right; now left|now left|right; now right].
    + destruct (plookup w st) as [cur|] eqn:E; [|reflexivity].
      apply IH; [exact K|]. destruct H as [[H|H]|H]; [discriminate|now left|now right].
Qed.

Theorem repeated_mention_is_noop bounded st pre v s post :
  In (v, Some s) pre ->
  run bounded [] st (pre ++ (v, Some s) :: post) = run bounded [] st (pre ++ post).
Proof. intros H. apply repeated_gen; [intros x []|now left]. Qed.

(* ---------------------------------------------------------------- one hyperslab, however often it is written *)
(* the mentions of v carry no other hyperslab than s *)
Definition only_slab (v : cname) (s : slab) (items : list mention) : Prop :=
  forall t, In (v, Some t) items -> t = s.

Lemma single_gen bounded v s src : forall items applied st fin,
  only_slab v s items ->
  (forall t, In (v, t) applied -> t = s) ->
  (if mem (v, s) applied then plookup v st = Some (take_slab s src) else plookup v st = Some src) ->
  run bounded applied st items = Some fin ->
  (In (v, Some s) items \/ mem (v, s) applied = true -> plookup v fin = Some (take_slab s src)) /\
  (~ In (v, Some s) items -> mem (v, s) applied = false -> plookup v fin = Some src).
Proof.
  induction items as [|[w o] items IH]; intros applied st fin Ho Ha Hst Hr.
  - cbn [run] in Hr. injection Hr as <-. split.
    + intros [[]|M]. now rewrite M in Hst.
    + intros _ M. now rewrite M in Hst.
  - assert (Ho' : only_slab v s items) by (intros t Ht; apply Ho; now right).
    cbn [run] in Hr. destruct o as [t|].
    + destruct (plookup w st) as [cur|] eqn:E; [|discriminate].
      destruct (mem (w, t) applied) eqn:M.
      * destruct (IH applied st fin Ho' Ha Hst Hr) as [I1 I2]. split.
        -- intros [[H|H]|H]; [|apply I1; now left|apply I1; now right].
           injection H as -> ->. apply I1. now right.
        -- intros Hn M2. apply I2; [|exact M2]. intros Hi. apply Hn. now right.
      * destruct (slab_ok (bounded w) (Z.of_nat (List.length cur)) t) eqn:Ok; [|discriminate].
        destruct (String.eqb w v) eqn:Ewv.
        -- apply String.eqb_eq in Ewv. subst w.
           assert (t = s) by (apply Ho; now left). subst t.
           rewrite M in Hst. rewrite Hst in E. injection E as <-.
           assert (M' : mem (v, s) ((v, s) :: applied) = true) by (apply mem_In; now left).
           destruct (IH ((v, s) :: applied) (pupdate v (take_slab s src) st) fin Ho') as [I1 _].
           ++ intros t' [H|H]; [now injection H as <-|now apply Ha].
           ++ rewrite M'. rewrite plookup_pupdate, String.eqb_refl, Hst. reflexivity.
           ++ exact Hr.
           ++ split; [intros _; apply I1; now right|].
              intros Hn _. exfalso. apply Hn. now left.
        -- assert (Mv : mem (v, s) ((w, t) :: applied) = mem (v, s) applied).
           { unfold mem. cbn [existsb]. unfold pair_eqb at 1. cbn [fst snd]. rewrite String.eqb_sym, Ewv. reflexivity. }
           destruct (IH ((w, t) :: applied) (pupdate w (take_slab t cur) st) fin Ho') as [I1 I2].
           ++ intros t' [H|H]; [|now apply Ha]. injection H as -> _. now rewrite String.eqb_refl in Ewv.
           ++ rewrite Mv. rewrite plookup_pupdate. rewrite String.eqb_sym, Ewv. exact Hst.
           ++ exact Hr.
           ++ rewrite Mv in I1, I2. split.
              ** intros [[H|H]|H]; [|apply I1; now left|apply I1; now right].
                 injection H as -> _. now rewrite String.eqb_refl in Ewv.
              ** intros Hn M2. apply I2; [|exact M2]. intros Hi. apply Hn. now right.
    + destruct (plookup w st) as [cur|] eqn:E; [|discriminate].
      destruct (IH applied st fin Ho' Ha Hst Hr) as [I1 I2]. split.
      * intros [[H|H]|H]; [discriminate|apply I1; now left|apply I1; now right].
      * intros Hn M2. apply I2; [|exact M2]. intros Hi. apply Hn. now right.
Qed.

Theorem one_hyperslab_however_often bounded st items fin v s src :
  plookup v st = Some src -> only_slab v s items -> In (v, Some s) items ->
  run bounded [] st items = Some fin ->
  plookup v fin = Some (take_slab s src).
Proof.
  intros E Ho Hi Hr.
  destruct (single_gen bounded v s src items [] st fin Ho) as [I1 _]; [intros t []|exact E|exact Hr|].
  apply I1. now left.
Qed.

Theorem unsliced_variable_is_whole bounded st items fin v src :
  plookup v st = Some src -> (forall t, ~ In (v, Some t) items) ->
  run bounded [] st items = Some fin ->
  plookup v fin = Some src.
Proof.
  intros E Hn Hr.
  destruct (single_gen bounded v (mkSlab 0 0 0) src items [] st fin) as [_ I2]; [intros t Ht; now apply Hn in Ht|intros t []|exact E|exact Hr|].
  apply I2; [apply Hn|reflexivity].
Qed.
