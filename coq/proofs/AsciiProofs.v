(* C06: layout laws of the ASCII response - every value of the flat data is printed once, in order, next to the multi-index
   whose C-order offset is its position. *)
From PydapV Require Import Base DDS DAS AsciiResp.
From Coq Require Import Lia.
Open Scope nat_scope.

Definition prod (s : list nat) : nat := fold_right Nat.mul 1 s.
Fixpoint ravel (shape ix : list nat) : nat :=
  match shape, ix with
  | _ :: r, i :: ix' => i * prod r + ravel r ix'
  | _, _ => 0
  end.
Fixpoint in_range (shape ix : list nat) : Prop :=
  match shape, ix with
  | [], [] => True
  | n :: r, i :: ix' => i < n /\ in_range r ix'
  | _, _ => False
  end.

Lemma flat_map_length_const {X Y} (f : X -> list Y) l m :
  (forall a, List.length (f a) = m) -> List.length (flat_map f l) = List.length l * m.
Proof. intros H. induction l as [|a l IH]; [reflexivity|]. cbn [flat_map List.length]. rewrite app_length, H, IH. lia. Qed.

Lemma ndindex_length shape : List.length (ndindex shape) = prod shape.
Proof.
  induction shape as [|n r IH]; [reflexivity|]. cbn [ndindex prod fold_right].
  rewrite (flat_map_length_const _ _ (prod r)); [rewrite seq_length; reflexivity|].
  intros a. rewrite map_length. exact IH.
Qed.

Lemma nth_flat_map_blocks {X Y} (f : X -> list Y) m (dx : X) (dy : Y) : forall l k,
  (forall a, List.length (f a) = m) -> k < List.length l * m ->
  nth k (flat_map f l) dy = nth (k mod m) (f (nth (k / m) l dx)) dy.
Proof.
  induction l as [|a l IH]; intros k Hf Hk; [cbn in Hk; lia|].
  assert (Hm : 0 < m) by (destruct m; [cbn [List.length] in Hk; lia|lia]).
  cbn [flat_map]. destruct (Nat.lt_ge_cases k m) as [Hlt|Hge].
  - rewrite app_nth1 by (rewrite Hf; exact Hlt). rewrite Nat.div_small, Nat.mod_small by exact Hlt. reflexivity.
  - rewrite app_nth2 by (rewrite Hf; exact Hge). rewrite Hf.
    rewrite IH; [|exact Hf|cbn [List.length] in Hk; lia].
    assert (Ed : k / m = S ((k - m) / m)).
    { replace k with ((k - m) + 1 * m) at 1 by lia. rewrite Nat.div_add by lia. lia. }
    assert (Em : k mod m = (k - m) mod m).
    { replace k with ((k - m) + 1 * m) at 1 by lia. rewrite Nat.mod_add by lia. reflexivity. }
    rewrite Ed, Em. reflexivity.
Qed.

Theorem ndindex_nth shape : forall k, k < prod shape ->
  in_range shape (nth k (ndindex shape) []) /\ ravel shape (nth k (ndindex shape) []) = k.
Proof.
  induction shape as [|n r IH]; intros k Hk.
  - cbn in Hk. assert (k = 0) by lia. subst. cbn. split; [exact I|reflexivity].
  - cbn [prod fold_right] in Hk. fold (prod r) in Hk.
    assert (Hm : 0 < prod r) by (destruct (prod r); [lia|lia]).
    cbn [ndindex].
    rewrite (nth_flat_map_blocks (fun i => map (cons i) (ndindex r)) (prod r) 0 []);
      [|intros a; rewrite map_length; apply ndindex_length|rewrite seq_length; exact Hk].
    assert (Hq : k / prod r < n) by (apply Nat.div_lt_upper_bound; lia).
    rewrite seq_nth by exact Hq. cbn [Nat.add].
    assert (Hr : k mod prod r < prod r) by (apply Nat.mod_upper_bound; lia).
    rewrite (nth_indep _ [] (k / prod r :: [])) by (rewrite map_length, ndindex_length; exact Hr).
    rewrite (map_nth (cons (k / prod r))).
    destruct (IH (k mod prod r) Hr) as [Hin Hrav]. cbn [in_range ravel]. split; [split; assumption|].
    rewrite Hrav. pose proof (Nat.div_mod k (prod r)). lia.
Qed.

(* the element lines: line k carries token k and the label of index tuple k *)
Definition line_of (ixs : list (list nat)) (toks : list chars) (k : nat) : chars :=
  label (nth k ixs []) ++ sp :: nth k toks [] ++ [nl].

Lemma flat_map_seq_shift {Y} (f : nat -> list Y) n : forall a,
  flat_map f (seq (S a) n) = flat_map (fun k => f (S k)) (seq a n).
Proof. induction n as [|n IH]; intros a; [reflexivity|]. cbn [seq flat_map]. rewrite IH. reflexivity. Qed.

Lemma elem_lines_seq ixs : forall toks, List.length toks = List.length ixs ->
  elem_lines ixs toks = flat_map (line_of ixs toks) (seq 0 (List.length ixs)).
Proof.
  induction ixs as [|ix ixs IH]; intros toks H; [destruct toks; reflexivity|].
  destruct toks as [|t toks]; [discriminate|]. cbn [List.length] in H. injection H as H.
  cbn [elem_lines List.length seq flat_map]. unfold line_of at 1. cbn [nth]. rewrite <- app_assoc. cbn [app].
  rewrite <- app_assoc. cbn [app].
  apply (f_equal (app (label ix))). apply (f_equal (cons sp)). apply (f_equal (app t)). apply (f_equal (cons nl)).
  rewrite (IH toks H). rewrite flat_map_seq_shift.
  apply flat_map_ext. intros k. reflexivity.
Qed.

Theorem ascii_array_lines shape toks :
  List.length toks = prod shape ->
  elem_lines (ndindex shape) toks = flat_map (line_of (ndindex shape) toks) (seq 0 (prod shape)).
Proof. intros H. rewrite <- ndindex_length. apply elem_lines_seq. rewrite ndindex_length. exact H. Qed.

(* a record of a flat sequence is one line: its cells joined by ", " *)
Theorem ascii_sequence ids rows :
  print_avar true (VSeq ids rows) =
  cjoin (s2l ", ") ids ++ [nl] ++ flat_map (fun row => cjoin (s2l ", ") row ++ [nl]) rows.
Proof. reflexivity. Qed.
