(* C08, placement with the NC_GLOBAL / DODS_EXTRA containers: they are flattened into the dataset's attributes. *)
From PydapV Require Import Base Quote DDS DAS DASPlaceProofs.
From Coq Require Import Lia Permutation.
Open Scope nat_scope.

Definition entries_of (kids : list vtree) : adict := map das_entry kids.

(* the part of add_attributes after the global containers were taken out: A = the remaining top-level attributes *)
Lemma place_core dsname g A kids :
  NoDup (map fst A ++ map vname kids) -> Forall (fun k => dotfree k = true) (map fst A) -> forallb wf_v kids = true ->
  ~ In dsname (map fst A ++ map vname kids) ->
  (do r <- run_vars (rev (flat_map (walk_paths []) kids)) (A ++ entries_of kids);
   do d <- var_step [dsname] g (snd r);
   Some (fold_left (fun acc kv => dset (fst kv) (snd kv) acc) (snd d) (fst d), rev (fst r))) =
  Some (dupdate g A, flat_map (expected []) kids).
Proof.
  intros Hnd Hdf Hwk Hds. destruct (nodup_app_parts _ _ Hnd) as (Hna & Hnk & Hdis).
  set (st0 := A ++ entries_of kids).
  assert (Hents : entries_of kids = map (fun c => (vname c, ADict (entry_dict c))) kids)
    by (apply map_ext; intros c; apply das_entry_shape).
  assert (Hkeys : map fst st0 = map fst A ++ map vname kids).
  { unfold st0. rewrite map_app, Hents, map_map. reflexivity. }
  assert (Hn0 : NoDup (map fst st0)) by (rewrite Hkeys; exact Hnd).
  assert (Hk0 : dotfree_keys st0).
  { unfold dotfree_keys. rewrite Hkeys. apply Forall_app. split; [exact Hdf|]. apply Forall_forall. intros x Hx.
    apply in_map_iff in Hx as (c & <- & Hc). rewrite forallb_forall in Hwk. specialize (Hwk c Hc). destruct c as [k n a ks].
    cbn [wf_v] in Hwk. apply andb_true_iff in Hwk as [Hw _]. apply andb_true_iff in Hw as [Hw _]. apply andb_true_iff in Hw as [Hw _]. exact Hw. }
  assert (Hrun : run_vars (rev (flat_map (walk_paths []) kids)) st0 =
                 Some (rev (flat_map (expected []) kids), modpath [] (drem_all (map vname kids)) st0)).
  { apply (proc_kids [] kids st0 st0); try assumption.
    - apply Forall_forall. intros t _. apply placed_all.
    - constructor.
    - reflexivity.
    - intros c Hc. apply dget_in; [exact Hn0|]. unfold st0. apply in_or_app. right. rewrite Hents.
      apply in_map_iff. exists c. split; [reflexivity|exact Hc]. }
  rewrite Hrun. cbn [obind fst snd modpath].
  assert (Hfinal : drem_all (map vname kids) st0 = A).
  { unfold st0. rewrite Hents. apply (drem_all_entries A kids (fun c => ADict (entry_dict c))). exact Hnd. }
  rewrite Hfinal.
  assert (Hnot : ~ In dsname (map fst A)) by (intros Hin; apply Hds; apply in_or_app; left; exact Hin).
  unfold var_step. cbn [cjoin]. rewrite (dget_none dsname _ Hnot). cbn [obind removelast last getpath].
  rewrite (dget_none dsname _ Hnot). cbn [obind fst snd]. rewrite rev_involutive. reflexivity.
Qed.

(* the global containers of a served DAS: only among the dataset attributes (variables are not named NC_GLOBAL / DODS_EXTRA) *)
Definition is_gd (kv : chars * aval) : bool := is_dict (snd kv) && is_global_name (fst kv).

Lemma global_dicts_app a b : forallb (fun kv => negb (is_gd kv)) b = true -> global_dicts (a ++ b) = global_dicts a.
Proof.
  intros H. unfold global_dicts. rewrite fold_left_app. generalize (fold_left
     (fun g kv => match kv with (k, ADict d) => if is_global_name k then dupdate g d else g | _ => g end) a []).
  induction b as [|[k v] b IH]; intros g; [reflexivity|]. cbn [forallb] in H. apply andb_true_iff in H as [Hx H].
  cbn [fold_left]. unfold is_gd in Hx. cbn [fst snd] in Hx. destruct v as [t vs|d]; [apply IH, H|].
  cbn [is_dict andb] in Hx. destruct (is_global_name k); [discriminate|]. apply IH, H.
Qed.

Lemma without_app a b : forallb (fun kv => negb (is_gd kv)) b = true -> without_global_dicts (a ++ b) = without_global_dicts a ++ b.
Proof.
  intros H. unfold without_global_dicts. rewrite filter_app. f_equal. apply filter_all_true.
  rewrite forallb_forall in *. intros x Hx. apply (H x Hx).
Qed.

Theorem add_attributes_with_globals dsname dsa kids :
  let S := sort_attrs dsa in
  let A := without_global_dicts S in
  NoDup (map fst A ++ map vname kids) -> Forall (fun k => dotfree k = true) (map fst A) -> forallb wf_v kids = true ->
  ~ In dsname (map fst A ++ map vname kids) -> forallb (fun c => negb (is_global_name (vname c))) kids = true ->
  add_attributes dsname kids (das_of dsa kids) = Some (dupdate (global_dicts S) A, flat_map (expected []) kids).
Proof.
  cbn zeta. intros Hnd Hdf Hwk Hds Hgk. unfold add_attributes, das_of.
  assert (Hb : forallb (fun kv => negb (is_gd kv)) (map das_entry kids) = true).
  { rewrite forallb_forall. intros x Hx. apply in_map_iff in Hx as (c & <- & Hc). rewrite das_entry_shape. unfold is_gd.
    cbn [fst snd is_dict andb]. rewrite forallb_forall in Hgk. apply (Hgk c Hc). }
  rewrite (global_dicts_app _ _ Hb), (without_app _ _ Hb).
  apply (place_core dsname (global_dicts (sort_attrs dsa)) (without_global_dicts (sort_attrs dsa)) kids); assumption.
Qed.
