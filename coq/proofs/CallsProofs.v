(* C19: the server reads a function call written by the client proxy as exactly the call tree the client meant -
   for every nesting depth and number of arguments. *)
From PydapV Require Import Base QuoteProofs DDS DDSProofs Calls.
From Coq Require Import Lia.
Open Scope nat_scope.

Definition plain_char (c : ascii) : bool :=
  negb (Ascii.eqb c "("%char) && negb (Ascii.eqb c ")"%char) && negb (Ascii.eqb c ","%char).
Definition wf_fname (n : chars) : bool :=
  match n with c :: r => is_name_start c && forallb is_name_char r | [] => false end.

Fixpoint wf_cexp (e : cexp) : bool :=
  match e with
  | CLeaf t => forallb plain_char t
  | CCall n args => wf_fname n && negb (match args with [] => true | _ => false end) && forallb wf_cexp args
  end.
Fixpoint csize (e : cexp) : nat :=
  match e with CLeaf _ => 1 | CCall _ args => 1 + list_sum (map csize args) end.

Section CInd.
  Variable P : cexp -> Prop.
  Hypothesis Hl : forall t, P (CLeaf t).
  Hypothesis Hc : forall n args, Forall P args -> P (CCall n args).
  Fixpoint cexp_ind2 (e : cexp) : P e :=
    match e with
    | CLeaf t => Hl t
    | CCall n args => Hc n args ((fix go (l : list cexp) : Forall P l :=
                                    match l with [] => Forall_nil _ | x :: r => Forall_cons _ (cexp_ind2 x) (go r) end) args)
    end.
End CInd.

(* ------------------------------------------------------------------ character facts *)
Lemma name_char_plain c : is_name_char c = true -> plain_char c = true.
Proof. ascii_cases c; intros H; try reflexivity; discriminate H. Qed.
Lemma name_start_plain c : is_name_start c = true -> plain_char c = true.
Proof. ascii_cases c; intros H; try reflexivity; discriminate H. Qed.
Lemma plain_not_open c : plain_char c = true -> Ascii.eqb c "("%char = false.
Proof. unfold plain_char. destruct (Ascii.eqb c "("%char); [discriminate|reflexivity]. Qed.
Lemma plain_not_close c : plain_char c = true -> Ascii.eqb c ")"%char = false.
Proof. unfold plain_char. destruct (Ascii.eqb c "("%char), (Ascii.eqb c ")"%char); try discriminate; reflexivity. Qed.
Lemma plain_not_comma c : plain_char c = true -> Ascii.eqb c ","%char = false.
Proof. unfold plain_char. destruct (Ascii.eqb c "("%char), (Ascii.eqb c ")"%char), (Ascii.eqb c ","%char); try discriminate; reflexivity. Qed.

(* ------------------------------------------------------------------ the tokenizer walks over a printed expression *)
Lemma tok_go_plain p : forall d cur rest,
  forallb plain_char p = true -> tok_go d cur (p ++ rest) = tok_go d (rev p ++ cur) rest.
Proof.
  induction p as [|c p IH]; intros d cur rest H; [reflexivity|].
  cbn [forallb] in H. apply andb_true_iff in H as [Hc H]. cbn [app tok_go].
  rewrite (plain_not_open c Hc), (plain_not_close c Hc), (plain_not_comma c Hc). cbn [andb].
  rewrite IH by exact H. cbn [rev]. rewrite <- app_assoc. reflexivity.
Qed.

Definition walks (s : chars) : Prop :=
  forall d cur rest, (0 <= d)%Z -> tok_go d cur (s ++ rest) = tok_go d (rev s ++ cur) rest.

Lemma walks_args args :
  Forall (fun e => walks (print_cexp e)) args ->
  forall d cur rest, (1 <= d)%Z ->
  tok_go d cur (cjoin1 ","%char (map print_cexp args) ++ rest) =
  tok_go d (rev (cjoin1 ","%char (map print_cexp args)) ++ cur) rest.
Proof.
  induction 1 as [|e args He _ IH]; intros d cur rest Hd; [reflexivity|].
  destruct args as [|e2 args].
  - cbn [map cjoin1]. apply He. lia.
  - change (cjoin1 ","%char (map print_cexp (e :: e2 :: args)))
      with (print_cexp e ++ ","%char :: cjoin1 ","%char (map print_cexp (e2 :: args))).
    rewrite <- app_assoc. rewrite He by lia. cbn [app tok_go].
    change (Ascii.eqb ","%char "("%char) with false. change (Ascii.eqb ","%char ")"%char) with false.
    change (Ascii.eqb ","%char ","%char) with true. cbv iota.
    assert (E : (d =? 0)%Z = false) by (apply Z.eqb_neq; lia). rewrite E. cbn [andb].
    rewrite IH by exact Hd. rewrite rev_app_distr. cbn [rev]. rewrite <- !app_assoc. reflexivity.
Qed.

Lemma wf_fname_plain n : wf_fname n = true -> forallb plain_char n = true.
Proof.
  destruct n as [|c r]; [discriminate|]. cbn [wf_fname forallb]. intros H. apply andb_true_iff in H as [H1 H2].
  rewrite (name_start_plain c H1). cbn [andb]. apply (forallb_impl is_name_char); [apply name_char_plain|exact H2].
Qed.

Lemma walks_print e : wf_cexp e = true -> walks (print_cexp e).
Proof.
  induction e as [t|n args IH] using cexp_ind2; intros Hw d cur rest Hd.
  - cbn [print_cexp]. apply tok_go_plain. exact Hw.
  - cbn [wf_cexp] in Hw. apply andb_true_iff in Hw as [Hw Ha]. apply andb_true_iff in Hw as [Hn _].
    cbn [print_cexp]. rewrite <- app_assoc. rewrite (tok_go_plain n) by (apply wf_fname_plain, Hn).
    cbn [app tok_go]. change (Ascii.eqb "("%char "("%char) with true. cbv iota.
    rewrite <- app_assoc. rewrite walks_args; [|
      apply Forall_forall; intros x Hx; rewrite Forall_forall in IH; apply IH; [exact Hx|rewrite forallb_forall in Ha; apply Ha, Hx]
      |lia].
    cbn [app tok_go]. change (Ascii.eqb ")"%char "("%char) with false. change (Ascii.eqb ")"%char ")"%char) with true. cbv iota.
    replace (d + 1 - 1)%Z with d by lia. f_equal.
    rewrite !rev_app_distr. cbn [rev app]. rewrite rev_app_distr. cbn [rev app]. rewrite <- !app_assoc. reflexivity.
Qed.

Lemma tokenize_args args : forall cur,
  args <> [] -> forallb wf_cexp args = true ->
  tok_go 0 cur (cjoin1 ","%char (map print_cexp args)) =
  match args with
  | [] => []
  | e :: r => (rev cur ++ print_cexp e) :: map print_cexp r
  end.
Proof.
  induction args as [|e args IH]; intros cur Hn Hw; [congruence|].
  cbn [forallb] in Hw. apply andb_true_iff in Hw as [He Hw]. destruct args as [|e2 args].
  - cbn [map cjoin1]. rewrite <- (app_nil_r (print_cexp e)) at 1. rewrite (walks_print e He) by lia.
    cbn [tok_go]. rewrite rev_app_distr, rev_involutive. reflexivity.
  - change (cjoin1 ","%char (map print_cexp (e :: e2 :: args)))
      with (print_cexp e ++ ","%char :: cjoin1 ","%char (map print_cexp (e2 :: args))).
    rewrite (walks_print e He) by lia. cbn [tok_go].
    change (Ascii.eqb ","%char "("%char) with false. change (Ascii.eqb ","%char ")"%char) with false.
    change (Ascii.eqb ","%char ","%char) with true. cbn [andb Z.eqb]. cbv iota.
    rewrite rev_app_distr, rev_involutive. f_equal.
    rewrite (IH []) by (try discriminate; exact Hw). reflexivity.
Qed.

Theorem tokenize_print args :
  args <> [] -> forallb wf_cexp args = true -> tokenize (cjoin1 ","%char (map print_cexp args)) = map print_cexp args.
Proof.
  intros Hn Hw. unfold tokenize. rewrite (tokenize_args args [] Hn Hw). destruct args; [congruence|reflexivity].
Qed.

(* ------------------------------------------------------------------ the FUNCTION regexp on a printed call *)
Lemma before_last_close_end a : before_last_close (a ++ [")"%char]) = Some a.
Proof.
  induction a as [|c a IH]; [reflexivity|]. cbn [app before_last_close]. rewrite IH. reflexivity.
Qed.

Lemma function_match_print n args :
  wf_fname n = true -> function_match (print_cexp (CCall n args)) = Some (n, cjoin1 ","%char (map print_cexp args)).
Proof.
  intros Hn. destruct n as [|c r]; [discriminate|]. cbn [wf_fname] in Hn. apply andb_true_iff in Hn as [Hc Hr].
  cbn [print_cexp app function_match]. rewrite Hc.
  rewrite (span_stop is_name_char r "("%char); [|exact Hr|reflexivity].
  change (Ascii.eqb "("%char "("%char) with true. cbv iota. rewrite before_last_close_end. reflexivity.
Qed.

Lemma function_match_leaf t : forallb plain_char t = true -> function_match t = None.
Proof.
  intros H. unfold function_match. destruct t as [|c r]; [reflexivity|]. destruct (is_name_start c); [|reflexivity].
  cbn [forallb] in H. apply andb_true_iff in H as [_ H].
  destruct (span is_name_char r) as [nm rest] eqn:E.
  assert (Hrest : forallb plain_char rest = true).
  { revert nm rest E. induction r as [|x r IH]; intros nm rest E; cbn [span] in E.
    - injection E as <- <-. reflexivity.
    - destruct (is_name_char x).
      + destruct (span is_name_char r) as [a b] eqn:E2. injection E as <- <-. cbn [forallb] in H. apply andb_true_iff in H as [_ H].
        apply (IH H a b eq_refl).
      + injection E as <- <-. exact H. }
  destruct rest as [|p body]; [reflexivity|]. cbn [forallb] in Hrest. apply andb_true_iff in Hrest as [Hp _].
  rewrite (plain_not_open p Hp). reflexivity.
Qed.

(* ------------------------------------------------------------------ the inverse pair *)
Lemma omap_map {X Y} (f : X -> option Y) (g : Y -> X) l :
  (forall y, In y l -> f (g y) = Some y) -> omap f (map g l) = Some l.
Proof.
  induction l as [|y l IH]; intros H; [reflexivity|]. cbn [map omap]. rewrite (H y (or_introl eq_refl)). cbn [obind].
  rewrite IH; [reflexivity|]. intros z Hz. apply H. right. exact Hz.
Qed.

Lemma in_sum_le3 (k : cexp) ks : In k ks -> csize k <= list_sum (map csize ks).
Proof.
  induction ks as [|x ks IH]; intros H; [destruct H|]. cbn [map list_sum fold_right]. destruct H as [-> | H]; [lia|].
  specialize (IH H). unfold list_sum in IH. lia.
Qed.

Theorem parse_print_cexp e : forall fuel, wf_cexp e = true -> csize e <= fuel -> parse_cexp fuel (print_cexp e) = Some e.
Proof.
  induction e as [t|n args IH] using cexp_ind2; intros fuel Hw Hf.
  - destruct fuel as [|f]; [cbn in Hf; lia|]. cbn [parse_cexp print_cexp]. rewrite (function_match_leaf t Hw). reflexivity.
  - destruct fuel as [|f]; [cbn in Hf; lia|]. cbn [wf_cexp] in Hw. apply andb_true_iff in Hw as [Hw Ha]. apply andb_true_iff in Hw as [Hn Hne].
    cbn [parse_cexp]. rewrite (function_match_print n args Hn).
    rewrite tokenize_print; [|destruct args; [discriminate|discriminate]|exact Ha].
    rewrite omap_map; [reflexivity|]. intros y Hy. rewrite Forall_forall in IH. apply IH; [exact Hy| |].
    + rewrite forallb_forall in Ha. apply Ha, Hy.
    + cbn [csize] in Hf. pose proof (in_sum_le3 y args Hy). lia.
Qed.

(* ------------------------------------------------------------------ detection of calls: transparency *)
Lemma existsb_rev_false {X} (f : X -> bool) l : existsb f l = false -> existsb f (rev l) = false.
Proof.
  intros H. destruct (existsb f (rev l)) eqn:E; [|reflexivity]. apply existsb_exists in E as (x & Hx & Hf).
  apply in_rev in Hx. assert (existsb f l = true) by (apply existsb_exists; eauto). congruence.
Qed.

Lemma tok_go_no_paren s : forall d cur, existsb (Ascii.eqb "("%char) s = false -> existsb (Ascii.eqb "("%char) cur = false ->
  existsb has_paren (tok_go d cur s) = false.
Proof.
  induction s as [|c s IH]; intros d cur Hs Hc.
  - cbn [tok_go existsb]. unfold has_paren. rewrite existsb_rev_false by exact Hc. reflexivity.
  - cbn [existsb] in Hs. apply orb_false_iff in Hs as [Hc0 Hs]. cbn [tok_go].
    rewrite Ascii.eqb_sym in Hc0. rewrite Hc0.
    assert (Hcur : existsb (Ascii.eqb "("%char) (c :: cur) = false).
    { cbn [existsb]. rewrite Ascii.eqb_sym, Hc0. exact Hc. }
    destruct (Ascii.eqb c ")"%char); [apply IH; assumption|].
    destruct (Ascii.eqb c ","%char && (d =? 0)%Z).
    + cbn [existsb]. unfold has_paren at 1. rewrite existsb_rev_false by exact Hc. apply IH; [exact Hs|reflexivity].
    + apply IH; assumption.
Qed.

Lemma function_match_no_paren s : existsb (Ascii.eqb "("%char) s = false -> function_match s = None.
Proof.
  intros H. unfold function_match. destruct s as [|c r]; [reflexivity|]. destruct (is_name_start c); [|reflexivity].
  cbn [existsb] in H. apply orb_false_iff in H as [_ H].
  destruct (span is_name_char r) as [nm rest] eqn:E.
  assert (Hrest : existsb (Ascii.eqb "("%char) rest = false).
  { revert nm rest E. induction r as [|x r IH]; intros nm rest E; cbn [span] in E.
    - injection E as <- <-. reflexivity.
    - destruct (is_name_char x).
      + destruct (span is_name_char r) as [a b] eqn:E2. injection E as <- <-. cbn [existsb] in H. apply orb_false_iff in H as [_ H].
        apply (IH H a b eq_refl).
      + injection E as <- <-. exact H. }
  destruct rest as [|p body]; [reflexivity|]. cbn [existsb] in Hrest. apply orb_false_iff in Hrest as [Hp _].
  rewrite Ascii.eqb_sym in Hp. rewrite Hp. reflexivity.
Qed.

(* a request whose text has no opening parenthesis is handed to the application untouched *)
Theorem no_paren_not_called projection selection :
  existsb (Ascii.eqb "("%char) projection = false ->
  forallb (fun s => negb (existsb (Ascii.eqb "("%char) s)) selection = true ->
  called projection selection = false.
Proof.
  intros Hp Hs. unfold called. apply orb_false_iff. split.
  - destruct projection as [|c p]; [reflexivity|]. unfold tokenize. apply tok_go_no_paren; [exact Hp|reflexivity].
  - destruct (existsb (fun s => match function_match s with Some _ => true | None => false end) selection) eqn:E; [|reflexivity].
    apply existsb_exists in E as (s & Hin & Hm).
    rewrite forallb_forall in Hs. specialize (Hs s Hin). apply negb_true_iff in Hs.
    rewrite (function_match_no_paren s Hs) in Hm. discriminate.
Qed.

(* a relational clause on a variable is not a call, whatever its right-hand side contains (e.g. a string with parentheses) *)
Theorem relational_clause_not_call id rest c :
  forallb is_name_char id = true -> is_name_char c = false -> Ascii.eqb c "("%char = false ->
  function_match (id ++ c :: rest) = None.
Proof.
  intros Hid Hc Hp. unfold function_match. destruct id as [|x id]; cbn [app].
  - destruct (is_name_start c) eqn:E; [|reflexivity]. exfalso. revert E Hc. ascii_cases c; cbn; congruence.
  - destruct (is_name_start x); [|reflexivity]. cbn [forallb] in Hid. apply andb_true_iff in Hid as [_ Hid].
    rewrite (span_stop is_name_char id c rest Hid Hc). rewrite Hp. reflexivity.
Qed.

(* ------------------------------------------------------------------ mean(): which axes remain *)
Definition remove_nth {X} (n : nat) (l : list X) : list X := firstn n l ++ skipn (S n) l.

Lemma drop_index_shift {X} (axis : nat) (l : list X) : forall k,
  map snd (filter (fun p => negb (Nat.eqb (fst p) (k + axis))) (combine (seq k (List.length l)) l)) = remove_nth axis l.
Proof.
  revert l. induction axis as [|a IH]; intros l k.
  - destruct l as [|x l]; [reflexivity|]. cbn [List.length seq combine filter fst]. rewrite Nat.add_0_r, Nat.eqb_refl. cbn [negb].
    unfold remove_nth. cbn [firstn skipn app].
    assert (G : forall (m : list X) j, k < j -> map snd (filter (fun p => negb (Nat.eqb (fst p) k)) (combine (seq j (List.length m)) m)) = m).
    { induction m as [|y m IHm]; intros j Hj; [reflexivity|]. cbn [List.length seq combine filter fst].
      assert (E : Nat.eqb j k = false) by (apply Nat.eqb_neq; lia). rewrite E. cbn [negb map snd]. f_equal. apply IHm. lia. }
    apply G. lia.
  - destruct l as [|x l]; [reflexivity|]. cbn [List.length seq combine filter fst].
    assert (E : Nat.eqb k (k + S a) = false) by (apply Nat.eqb_neq; lia). rewrite E. cbn [negb map snd].
    unfold remove_nth. cbn [firstn skipn app]. f_equal.
    replace (k + S a) with (S k + a) by lia. apply (IH l (S k)).
Qed.

Theorem drop_index_spec {X} (axis : nat) (l : list X) : drop_index axis l = remove_nth axis l.
Proof. unfold drop_index. apply (drop_index_shift axis l 0). Qed.

Theorem remove_nth_length {X} (axis : nat) (l : list X) : axis < List.length l -> List.length (remove_nth axis l) = List.length l - 1.
Proof. intros H. unfold remove_nth. rewrite app_length, firstn_length, skipn_length. lia. Qed.

Lemma nth_firstn_lt {X} (l : list X) d : forall n i, i < n -> nth i (firstn n l) d = nth i l d.
Proof.
  induction l as [|x l IH]; intros n i H; [destruct n, i; reflexivity|]. destruct n as [|n]; [lia|].
  destruct i as [|i]; [reflexivity|]. cbn [firstn nth]. apply IH. lia.
Qed.
Lemma nth_skipn_shift {X} (l : list X) d : forall n i, nth i (skipn n l) d = nth (n + i) l d.
Proof.
  induction l as [|x l IH]; intros n i; [destruct n, i; reflexivity|]. destruct n as [|n]; [reflexivity|]. cbn [skipn Nat.add nth]. apply IH.
Qed.

Theorem remove_nth_nth {X} (axis i : nat) (l : list X) d : axis < List.length l ->
  nth i (remove_nth axis l) d = if i <? axis then nth i l d else nth (S i) l d.
Proof.
  intros H. unfold remove_nth. destruct (i <? axis) eqn:E.
  - apply Nat.ltb_lt in E. rewrite app_nth1 by (rewrite firstn_length; lia). apply nth_firstn_lt. exact E.
  - apply Nat.ltb_ge in E. rewrite app_nth2 by (rewrite firstn_length; lia). rewrite firstn_length.
    replace (Nat.min axis (List.length l)) with axis by lia. rewrite nth_skipn_shift. f_equal. lia.
Qed.

(* ------------------------------------------------------------------ bounds(): exactly the records inside all closed intervals *)
Lemma in_bounds_closed lo hi x : (lo <= hi)%Z -> in_bounds lo hi x = ((lo <=? x)%Z && (x <=? hi)%Z).
Proof.
  intros H. unfold in_bounds. destruct (lo =? hi)%Z eqn:E; [|reflexivity]. apply Z.eqb_eq in E. subst hi.
  destruct (x =? lo)%Z eqn:Ex.
  - apply Z.eqb_eq in Ex. subst. rewrite Z.leb_refl. reflexivity.
  - apply Z.eqb_neq in Ex. destruct (lo <=? x)%Z eqn:E1, (x <=? lo)%Z eqn:E2; try reflexivity.
    apply Z.leb_le in E1, E2. lia.
Qed.

Lemma filter_filter {X} (p q : X -> bool) l : filter q (filter p l) = filter (fun x => p x && q x) l.
Proof.
  induction l as [|x l IH]; [reflexivity|]. cbn [filter]. destruct (p x); cbn [filter andb]; [destruct (q x); rewrite IH; reflexivity|exact IH].
Qed.

Theorem bounds_filter_spec axes : forall rows,
  bounds_filter axes rows =
  filter (fun r => forallb (fun ax => let '(col, lo, hi) := ax in in_bounds lo hi (nth col r 0%Z)) axes) rows.
Proof.
  induction axes as [|[[col lo] hi] axes IH]; intros rows.
  - cbn. induction rows as [|r rows IHr]; [reflexivity|]. cbn [filter]. f_equal. exact IHr.
  - unfold bounds_filter in *. cbn [fold_left]. rewrite IH. unfold bounds_step. rewrite filter_filter. reflexivity.
Qed.

(* the records are kept in their order, unchanged *)
Theorem bounds_filter_sublist axes rows r : In r (bounds_filter axes rows) -> In r rows.
Proof. rewrite bounds_filter_spec. intros H. apply filter_In in H. apply H. Qed.
