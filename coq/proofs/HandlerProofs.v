From PydapV Require Import Base Handler.
Open Scope nat_scope.

Theorem contained_never_raises steps :
  contained steps = true -> forall raises i, run steps true raises i <> Raised.
Proof.
  induction steps as [|s steps IH]; intros H raises i; cbn [run]; [discriminate|].
  cbn [contained forallb] in H. apply andb_true_iff in H as [Hs H].
  destruct (may_raise s) eqn:Em; cbn [andb].
  - cbn [implb] in Hs. rewrite Hs. destruct (raises i); [discriminate|]. now apply IH.
  - now apply IH.
Qed.

(* conversely: a statement that may raise outside the try lets an exception out *)
Theorem uncontained_can_raise steps :
  contained steps = false -> exists raises, run steps true raises 0 = Raised.
Proof.
  assert (G : forall i, contained steps = false -> exists raises, run steps true raises i = Raised).
  { induction steps as [|s steps IH]; intros i H; [discriminate|].
    cbn [contained forallb] in H. destruct (implb (may_raise s) (in_try s)) eqn:Es.
    - cbn [andb] in H. destruct (IH (S i) H) as (raises & Hr).
      exists (fun j => if Nat.eqb j i then false else raises j). cbn [run]. rewrite Nat.eqb_refl, andb_false_r.
      assert (E : forall st k, i < k -> run st true (fun j => if Nat.eqb j i then false else raises j) k = run st true raises k).
      { induction st as [|t st IHs]; intros k Hk; [reflexivity|]. cbn [run].
        replace (Nat.eqb k i) with false by (symmetry; apply Nat.eqb_neq; lia).
        destruct (may_raise t && raises k); [reflexivity|]. apply IHs. lia. }
      rewrite E by lia. exact Hr.
    - destruct (may_raise s) eqn:Em, (in_try s) eqn:Et; try discriminate.
      exists (fun _ => true). cbn [run]. rewrite Em, Et. reflexivity. }
  apply G.
Qed.
