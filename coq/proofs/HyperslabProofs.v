(* C03 law 3: parse_hyperslab (hyperslab s) = s for normalised non-empty slices. *)
From PydapV Require Import Base Slices SliceArith SliceProofs StrLemmas.
Open Scope Z_scope.

(* a normalised slice whose stop is not 0 (a non-empty selection has start < stop, hence stop >= 1) *)
Definition printable (it : item) : Prop :=
  exists a b k, it = ISlice (mkSlice (Some a) (Some b) (Some k)) /\ b <> 0 /\ k <> 0.

Definition expr_chars (a k b : Z) : chars :=
  s2l (print_dec a) ++ ":"%char :: s2l (print_dec k) ++ ":"%char :: s2l (print_dec b).

Lemma or_default_nz v d : v <> 0 -> or_default (Some v) d = v.
Proof. unfold or_default. intros. destruct (v =? 0) eqn:E; [lia|reflexivity]. Qed.

Lemma or_default_start v : or_default (Some v) 0 = v.
Proof. unfold or_default. destruct (v =? 0) eqn:E; [lia|reflexivity]. Qed.

Lemma hyperslab1_chars a b k :
  b <> 0 -> k <> 0 ->
  exists str, hyperslab1 (ISlice (mkSlice (Some a) (Some b) (Some k))) = Some str /\
              s2l str = "["%char :: expr_chars a k (b - 1) ++ ["]"%char].
Proof.
  intros Hb Hk. eexists; split; [reflexivity|].
  cbn [start stop step]. rewrite or_default_start, (or_default_nz k), (or_default_nz b) by assumption.
  repeat rewrite s2l_app. cbn [s2l list_ascii_of_string app]. unfold expr_chars.
  repeat (rewrite <- app_assoc; cbn [app]). reflexivity.
Qed.

Lemma dec_no c : dec_char c -> c <> "]"%char /\ c <> ":"%char.
Proof. intros (? & ? & ? & ?); split; assumption. Qed.

Lemma dec_no_bracket z : Forall (fun c => c <> "]"%char) (s2l (print_dec z)).
Proof. eapply Forall_impl; [|apply print_dec_chars]. intros c H; apply dec_no in H; tauto. Qed.

Lemma expr_no_bracket a k b : Forall (fun c => c <> "]"%char) (expr_chars a k b).
Proof.
  unfold expr_chars. apply Forall_app; split; [apply dec_no_bracket|].
  constructor; [discriminate|]. apply Forall_app; split; [apply dec_no_bracket|].
  constructor; [discriminate|]. apply dec_no_bracket.
Qed.

Lemma dec_no_colon z : Forall (fun c => c <> ":"%char) (s2l (print_dec z)).
Proof. eapply Forall_impl; [|apply print_dec_chars]. intros c H; apply dec_no in H; tauto. Qed.

Lemma parse_expr_chars a k b :
  parse_expr (expr_chars a k b) = Some (ISlice (mkSlice (Some a) (Some (b + 1)) (Some k))).
Proof.
  unfold parse_expr, expr_chars.
  change (s2l (print_dec a) ++ ":"%char :: s2l (print_dec k) ++ ":"%char :: s2l (print_dec b))
    with (join [":"%char] [s2l (print_dec a); s2l (print_dec k); s2l (print_dec b)]).
  rewrite split_on_join; [|discriminate|repeat constructor; apply dec_no_colon].
  cbn [omap obind]. rewrite !l2s_s2l, !parse_print_dec. reflexivity.
Qed.

(* the text of a non-empty list of blocks, stripped of its outer brackets, is the join on "][" *)
Lemma blocks_join (es : list chars) (e : chars) :
  fold_right (fun x acc => ("["%char :: x ++ ["]"%char]) ++ acc) [] (e :: es)
  = "["%char :: join ["]"%char; "["%char] (e :: es) ++ ["]"%char].
Proof.
  revert e; induction es as [|e' es IH]; intros e.
  - cbn. now rewrite app_nil_r.
  - cbn [fold_right] in *. rewrite IH.
    change (join ["]"%char; "["%char] (e :: e' :: es))
      with (e ++ ["]"%char; "["%char] ++ join ["]"%char; "["%char] (e' :: es)).
    cbn [app]. repeat rewrite <- app_assoc. cbn [app]. reflexivity.
Qed.

Lemma drop_trailing_printable sl : Forall printable sl -> drop_trailing_full sl = sl.
Proof.
  induction 1 as [|it sl (a & b & k & -> & _) H IH]; [reflexivity|].
  cbn [drop_trailing_full]. rewrite IH. destruct sl; reflexivity.
Qed.

Theorem hyperslab_roundtrip sl :
  Forall printable sl ->
  exists text, hyperslab sl = Some text /\ parse_hyperslab text = Some sl.
Proof.
  intros H. unfold hyperslab. rewrite drop_trailing_printable by assumption.
  (* describe the parts *)
  assert (G : exists parts es,
             omap hyperslab1 sl = Some parts /\
             s2l (str_concat parts) =
               fold_right (fun x acc => ("["%char :: x ++ ["]"%char]) ++ acc) [] es /\
             Forall (Forall (fun c => c <> "]"%char)) es /\
             Forall (fun e => nonempty e = true) es /\
             omap parse_expr es = Some sl).
  { induction H as [|it sl (a & b & k & -> & Hb & Hk) H IH].
    - exists [], []. cbn. repeat split; constructor.
    - destruct IH as (parts & es & E1 & E2 & E3 & E4 & E5).
      destruct (hyperslab1_chars a b k Hb Hk) as (str & Es & Ec).
      exists (str :: parts), (expr_chars a k (b - 1) :: es).
      cbn [omap obind]. rewrite Es, E1. cbn [obind]. repeat split.
      + cbn [str_concat fold_right]. rewrite s2l_app, Ec, E2. reflexivity.
      + constructor; [apply expr_no_bracket|assumption].
      + constructor; [|assumption]. unfold expr_chars.
        destruct (s2l (print_dec a)); reflexivity.
      + rewrite parse_expr_chars, E5. cbn [obind].
        replace (b - 1 + 1) with b by lia. reflexivity. }
  destruct G as (parts & es & E1 & E2 & E3 & E4 & E5).
  rewrite E1. cbn [obind]. eexists; split; [reflexivity|].
  unfold parse_hyperslab. rewrite E2.
  destruct es as [|e es].
  - cbn in E5. injection E5 as <-. reflexivity.
  - rewrite blocks_join, strip_ends_wrap.
    rewrite split_on_join; [|discriminate|assumption].
    assert (Ef : filter nonempty (e :: es) = e :: es).
    { clear -E4. induction E4 as [|x l Hx Hl IH]; [reflexivity|].
      cbn [filter]. rewrite Hx, IH. reflexivity. }
    transitivity (omap parse_expr (e :: es)); [f_equal; exact Ef|exact E5].
Qed.

(* the printable slices are exactly the normalised ones selecting something *)
Lemma normalised_nonempty_printable N s :
  normalised s -> np_indices N s <> [] -> printable (ISlice s).
Proof.
  intros (a & b & k & -> & Ha & Hb & Hk) Hne. exists a, b, k; repeat split; try lia.
  intros ->. apply Hne. unfold np_indices. cbn [start stop step clamp_start clamp_stop step_of].
  rewrite cnt_zero; [reflexivity|lia|].
  split_ifs; lia.
Qed.
