(* C12 quoting laws: idempotent, reversible, legal alphabet - for all byte strings. *)
From PydapV Require Import Base Quote.
Open Scope N_scope.

Ltac ascii_cases c := destruct c as [[] [] [] [] [] [] [] []].

Definition verb (c : ascii) : bool :=
  (always_safe c || memc c extra_safe) && negb (ascii_eqb c "."%char).
Definition tok (v : bool) (c : ascii) : chars := if v then [c] else pct c.
Definition render (m : list (ascii * bool)) : chars := flat_map (fun p => tok (snd p) (fst p)) m.
Definition mark (s : chars) : list (ascii * bool) := map (fun c => (c, verb c)) s.

Definition qb (c : ascii) : chars :=
  flat_map (fun x => flat_map (fun x0 => flat_map (rep1 "]"%char (s2l "%5D")) (rep1 "["%char (s2l "%5B") x0))
                              (rep1 "."%char (s2l "%2E") x)) (urlq c).

Definition is_hex (c : ascii) : bool := match hexval c with Some _ => true | None => false end.
Definition hex2b (t : chars) : bool := match t with h1 :: h2 :: _ => is_hex h1 && is_hex h2 | _ => false end.
(* no literal percent-escape: no '%' followed by two hex digits *)
Fixpoint nleb (s : chars) : bool :=
  match s with [] => true | c :: t => negb (ascii_eqb c "%"%char && hex2b t) && nleb t end.

(* ---------------------------------------------------------------- finite facts (256 cases each) *)
Lemma qb_tok c : qb c = tok (verb c) c.
Proof. ascii_cases c; vm_compute; reflexivity. Qed.

Definition pct_okb (c : ascii) : bool :=
  match pct c with
  | [p; h1; h2] =>
      ascii_eqb p "%"%char && negb (ascii_eqb h1 "%"%char) && negb (ascii_eqb h2 "%"%char) &&
      match hexval h1, hexval h2 with
      | Some a, Some b => ascii_eqb (ascii_of_N (16 * a + b)) c
      | _, _ => false
      end
  | _ => false
  end.
Lemma pct_ok c : pct_okb c = true.
Proof. ascii_cases c; vm_compute; reflexivity. Qed.

Lemma tok_chars_verb c : forallb verb (tok (verb c) c) = true.
Proof. ascii_cases c; vm_compute; reflexivity. Qed.
Lemma tok_chars_legal c : forallb legal (tok (verb c) c) = true.
Proof. ascii_cases c; vm_compute; reflexivity. Qed.
Lemma verb_not_pct c : verb c = true -> c <> "."%char.
Proof. intros H ->. vm_compute in H. discriminate. Qed.

(* shape of an escape *)
Lemma pct_shape c : exists h1 h2 a b,
  pct c = ["%"%char; h1; h2] /\ h1 <> "%"%char /\ h2 <> "%"%char /\
  hexval h1 = Some a /\ hexval h2 = Some b /\ ascii_of_N (16 * a + b) = c.
Proof.
  pose proof (pct_ok c) as H. unfold pct_okb in H. unfold pct in *.
  set (h1 := hexdigit (codeN c / 16)) in *. set (h2 := hexdigit (codeN c mod 16)) in *.
  rewrite Ascii.eqb_refl in H. cbn [andb] in H.
  destruct (ascii_eqb h1 "%"%char) eqn:E1; [discriminate|].
  destruct (ascii_eqb h2 "%"%char) eqn:E2; [discriminate|]. cbn [negb andb] in H.
  destruct (hexval h1) as [a|] eqn:Ea; [|discriminate].
  destruct (hexval h2) as [b|] eqn:Eb; [|discriminate].
  exists h1, h2, a, b.
  split; [reflexivity|]. split; [now apply Ascii.eqb_neq|]. split; [now apply Ascii.eqb_neq|].
  split; [exact Ea|]. split; [exact Eb|]. now apply Ascii.eqb_eq.
Qed.

Lemma pct_inj c d : pct c = pct d -> c = d.
Proof.
  intros E. destruct (pct_shape c) as (h1 & h2 & a & b & Ec & _ & _ & Ha & Hb & Hc).
  destruct (pct_shape d) as (k1 & k2 & a' & b' & Ed & _ & _ & Ha' & Hb' & Hd).
  rewrite Ec, Ed in E. injection E as -> ->. congruence.
Qed.

(* ---------------------------------------------------------------- generic list facts *)
Lemma flat_map_flat_map {A B C} (f : A -> list B) (g : B -> list C) l :
  flat_map g (flat_map f l) = flat_map (fun x => flat_map g (f x)) l.
Proof. induction l as [|x l IH]; cbn; [reflexivity|]. now rewrite flat_map_app, IH. Qed.

Lemma quote_body_render s : quote_body s = render (mark s).
Proof.
  unfold quote_body. rewrite !flat_map_flat_map. unfold render, mark.
  induction s as [|c s IH]; cbn [flat_map map fst snd]; [reflexivity|].
  rewrite <- IH. f_equal. apply (qb_tok c).
Qed.

Lemma render_app a b : render (a ++ b) = render a ++ render b.
Proof. apply flat_map_app. Qed.

Lemma render_verbatim s : render (map (fun c => (c, true)) s) = s.
Proof. induction s as [|c s IH]; cbn; [reflexivity|now f_equal]. Qed.

Lemma replace_go_skip pat new l t :
  replace_go pat new (List.length l) (l ++ t) = replace_go pat new O t.
Proof. induction l as [|c l IH]; cbn [List.length app replace_go]; [reflexivity|exact IH]. Qed.

Lemma pct_go_skip l t : pct_go (List.length l) (l ++ t) = pct_go O t.
Proof. induction l as [|c l IH]; cbn [List.length app pct_go]; [reflexivity|exact IH]. Qed.

(* ---------------------------------------------------------------- lookahead lemma *)
Lemma is_hex_pct : is_hex "%"%char = false.
Proof. reflexivity. Qed.

Lemma hex2b_render m : hex2b (render m) = true -> hex2b (map fst m) = true.
Proof.
  destruct m as [|[c v] m]; [discriminate|]. cbn [render flat_map fst snd map].
  destruct v; cbn [tok].
  - cbn [app]. destruct m as [|[d w] m]; [discriminate|].
    cbn [flat_map fst snd map]. destruct w; cbn [tok app hex2b]; [trivial|].
    destruct (pct_shape d) as (h1 & h2 & a & b & -> & _). cbn [app hex2b].
    rewrite is_hex_pct, andb_false_r. discriminate.
  - destruct (pct_shape c) as (h1 & h2 & a & b & -> & _). cbn [app hex2b].
    rewrite is_hex_pct. discriminate.
Qed.

(* ---------------------------------------------------------------- one replace stage *)
Definition upd (x : ascii) (p : ascii * bool) : ascii * bool := (fst p, snd p || ascii_eqb (fst p) x).

Lemma stage x m :
  x <> "%"%char -> is_hex x = false ->
  nleb (map fst m) = true ->
  replace (pct x) [x] (render m) = render (map (upd x) m).
Proof.
  intros Hx Hxh. unfold replace.
  destruct (pct_shape x) as (p1 & p2 & xa & xb & Ex & Hp1 & Hp2 & Hxa & Hxb & Hxd).
  rewrite Ex.
  induction m as [|[c v] m IH]; intros Hn; [reflexivity|].
  cbn [map fst] in Hn. cbn [nleb] in Hn. apply andb_true_iff in Hn as [Hn1 Hn2].
  specialize (IH Hn2).
  cbn [render flat_map map upd fst snd]. fold (render m). fold (render (map (upd x) m)).
  destruct v; cbn [tok orb].
  - (* verbatim character *)
    cbn [app replace_go]. cbn [prefixb].
    destruct (ascii_eqb "%"%char c) eqn:Ec.
    + apply Ascii.eqb_eq in Ec. subst c.
      (* the two characters that follow cannot both be hex digits *)
      assert (Hh : hex2b (render m) = false).
      { destruct (hex2b (render m)) eqn:E; [|reflexivity].
        apply hex2b_render in E. rewrite Ascii.eqb_refl, E in Hn1. discriminate. }
      assert (Hpre : prefixb [p1; p2] (render m) = false).
      { destruct (render m) as [|r1 [|r2 rm]]; cbn [prefixb]; try reflexivity.
        - now rewrite andb_false_r.
        - destruct (ascii_eqb p1 r1) eqn:E1, (ascii_eqb p2 r2) eqn:E2; cbn; try reflexivity.
          apply Ascii.eqb_eq in E1, E2. subst. cbn [hex2b] in Hh. unfold is_hex in Hh.
          rewrite Hxa, Hxb in Hh. discriminate. }
      cbn [prefixb] in Hpre. rewrite Hpre. cbn [andb]. f_equal. exact IH.
    + cbn [andb]. f_equal. exact IH.
  - (* escaped character *)
    destruct (pct_shape c) as (h1 & h2 & a & b & Ec & Hh1 & Hh2 & Ha & Hb & Hd).
    rewrite Ec. cbn [app replace_go]. cbn [prefixb]. rewrite Ascii.eqb_refl. cbn [andb].
    destruct (ascii_eqb c x) eqn:Ecx.
    + apply Ascii.eqb_eq in Ecx. rewrite Ecx in Ec |- *. rewrite Ex in Ec. injection Ec as <- <-.
      rewrite !Ascii.eqb_refl. cbn [andb List.length Nat.sub app tok]. f_equal. exact IH.
    + assert (Hne : ascii_eqb p1 h1 && (ascii_eqb p2 h2 && true) = false).
      { destruct (ascii_eqb p1 h1) eqn:E1, (ascii_eqb p2 h2) eqn:E2; try reflexivity.
        apply Ascii.eqb_eq in E1, E2. subst.
        apply Ascii.eqb_neq in Ecx. exfalso. apply Ecx. apply pct_inj. now rewrite Ec, Ex. }
      rewrite Hne. cbn [tok]. rewrite Ec. cbn [app]. f_equal.
      (* h1 and h2 are not '%' : no match can start there *)
      assert (F1 : ascii_eqb "%"%char h1 = false) by (apply Ascii.eqb_neq; congruence).
      assert (F2 : ascii_eqb "%"%char h2 = false) by (apply Ascii.eqb_neq; congruence).
      cbn [replace_go prefixb]. rewrite F1. cbn [andb]. f_equal.
      cbn [replace_go prefixb]. rewrite F2. cbn [andb]. f_equal. exact IH.
Qed.

Lemma map_fst_upd x m : map fst (map (upd x) m) = map fst m.
Proof. induction m as [|[c v] m IH]; cbn; [reflexivity|now f_equal]. Qed.

(* ---------------------------------------------------------------- final decode *)
Lemma decode_render m :
  nleb (map fst m) = true -> pct_go O (render m) = map fst m.
Proof.
  induction m as [|[c v] m IH]; intros Hn; [reflexivity|].
  cbn [map fst nleb] in Hn. apply andb_true_iff in Hn as [Hn1 Hn2]. specialize (IH Hn2).
  cbn [render flat_map map fst snd]. fold (render m).
  destruct v; cbn [tok].
  - cbn [app pct_go].
    destruct (ascii_eqb c "%"%char) eqn:Ec; [|now f_equal].
    assert (Hh : hex2b (render m) = false).
    { destruct (hex2b (render m)) eqn:E; [|reflexivity].
      apply hex2b_render in E. rewrite E in Hn1. discriminate. }
    destruct (render m) as [|r1 [|r2 rm]] eqn:Er; try (now f_equal).
    cbn [hex2b] in Hh. unfold is_hex in Hh.
    destruct (hexval r1), (hexval r2); try (now f_equal).
  - destruct (pct_shape c) as (h1 & h2 & a & b & Ec & Hh1 & Hh2 & Ha & Hb & Hd).
    rewrite Ec. cbn [app pct_go]. rewrite Ascii.eqb_refl, Ha, Hb, Hd. f_equal. exact IH.
Qed.

Theorem unquote_render m : nleb (map fst m) = true -> unquote (render m) = map fst m.
Proof.
  intros Hn. unfold unquote.
  change (s2l "%2E") with (pct "."%char). change (s2l "%5B") with (pct "["%char).
  change (s2l "%5D") with (pct "]"%char).
  rewrite stage by (try discriminate; try reflexivity; assumption).
  rewrite stage by (try discriminate; try reflexivity; rewrite map_fst_upd; assumption).
  rewrite stage by (try discriminate; try reflexivity; rewrite !map_fst_upd; assumption).
  rewrite decode_render by (rewrite !map_fst_upd; assumption).
  now rewrite !map_fst_upd.
Qed.

Lemma map_fst_mark s : map fst (mark s) = s.
Proof. unfold mark. rewrite map_map. cbn. apply map_id. Qed.

(* ---------------------------------------------------------------- the three laws *)
Theorem unquote_quote s : nleb s = true -> unquote (quote s) = s.
Proof.
  intros Hn. unfold quote. destruct (prefixb (s2l "dap4") s).
  - rewrite quote_body_render. rewrite <- (render_verbatim (firstn 8 s)) at 1.
    rewrite <- render_app. rewrite unquote_render.
    + rewrite map_app, map_fst_mark, map_map. cbn [fst]. rewrite map_id. apply firstn_skipn.
    + rewrite map_app, map_fst_mark, map_map. cbn [fst]. rewrite map_id, firstn_skipn. exact Hn.
  - rewrite quote_body_render, unquote_render; rewrite map_fst_mark; [reflexivity|exact Hn].
Qed.

Lemma quote_body_verbatim l : forallb verb l = true -> quote_body l = l.
Proof.
  intros H. rewrite quote_body_render. unfold render, mark. rewrite flat_map_concat_map, map_map.
  cbn [fst snd]. induction l as [|c l IH]; [reflexivity|].
  cbn [forallb] in H. apply andb_true_iff in H as [Hc Hl].
  cbn [map]. rewrite Hc. cbn [tok List.concat app]. f_equal. apply IH, Hl.
Qed.

Lemma quote_body_chars_verb s : forallb verb (quote_body s) = true.
Proof.
  rewrite quote_body_render. unfold render, mark.
  induction s as [|c s IH]; [reflexivity|].
  cbn [map flat_map fst snd]. rewrite forallb_app, tok_chars_verb. exact IH.
Qed.

Lemma quote_body_idem s : quote_body (quote_body s) = quote_body s.
Proof. apply quote_body_verbatim, quote_body_chars_verb. Qed.

(* a prefix made of verbatim characters other than '%' is a prefix of the quoted string iff of the raw one *)
Lemma prefixb_quote_body p s :
  forallb (fun x => verb x && negb (ascii_eqb x "%"%char)) p = true ->
  prefixb p (quote_body s) = prefixb p s.
Proof.
  rewrite quote_body_render. unfold render, mark.
  revert s; induction p as [|x p IH]; intros s Hp; [reflexivity|].
  cbn [forallb] in Hp. apply andb_true_iff in Hp as [Hx Hp]. apply andb_true_iff in Hx as [Hxv Hxp].
  destruct s as [|c s]; [reflexivity|].
  cbn [map flat_map fst snd]. destruct (verb c) eqn:Hc; cbn [tok].
  - cbn [app prefixb]. f_equal. apply IH, Hp.
  - destruct (pct_shape c) as (h1 & h2 & a & b & -> & _). cbn [app prefixb].
    assert (ascii_eqb x "%"%char = false) by (now destruct (ascii_eqb x "%"%char)).
    assert (ascii_eqb x c = false).
    { apply Ascii.eqb_neq. intros ->. congruence. }
    rewrite H, H0. reflexivity.
Qed.

Lemma prefixb_firstn p s n r :
  prefixb p s = true -> (List.length p <= n)%nat -> prefixb p (firstn n s ++ r) = true.
Proof.
  revert s n; induction p as [|x p IH]; intros s n H Hl; [reflexivity|].
  destruct s as [|c s]; [discriminate|]. cbn [prefixb] in H. apply andb_true_iff in H as [H1 H2].
  destruct n as [|n]; [cbn in Hl; lia|]. cbn [firstn app prefixb]. rewrite H1. cbn [andb].
  apply IH; [assumption|cbn in Hl; lia].
Qed.

Theorem quote_idempotent s : quote (quote s) = quote s.
Proof.
  unfold quote at 2 3. destruct (prefixb (s2l "dap4") s) eqn:Ed.
  - set (q := firstn 8 s ++ quote_body (skipn 8 s)).
    assert (Hq : prefixb (s2l "dap4") q = true) by (apply prefixb_firstn; [assumption|cbn; lia]).
    unfold quote. rewrite Hq.
    destruct (Nat.le_gt_cases 8 (List.length s)) as [Hl|Hl].
    + unfold q. rewrite firstn_app, skipn_app, firstn_length_le by assumption.
      rewrite Nat.sub_diag, firstn_O, skipn_O, app_nil_r.
      rewrite firstn_firstn. replace (Nat.min 8 8) with 8%nat by reflexivity.
      rewrite skipn_all2 by (rewrite firstn_length_le; [lia|assumption]).
      rewrite app_nil_l. now rewrite quote_body_idem.
    + assert (E : q = s).
      { unfold q. rewrite firstn_all2 by lia. rewrite skipn_all2 by lia. cbn. apply app_nil_r. }
      rewrite E. exact E.
  - unfold quote. rewrite prefixb_quote_body by reflexivity. rewrite Ed. apply quote_body_idem.
Qed.

Lemma render_mark_legal s : forallb legal (render (mark s)) = true.
Proof.
  unfold render, mark. induction s as [|c s IH]; [reflexivity|].
  cbn [map flat_map fst snd]. rewrite forallb_app, tok_chars_legal. exact IH.
Qed.

Theorem quote_legal s : prefixb (s2l "dap4") s = false -> forallb legal (quote s) = true.
Proof.
  intros Hd. unfold quote. rewrite Hd. rewrite quote_body_render. apply render_mark_legal.
Qed.
