(* Round trips of the fixed-width integer encodings. *)
From PydapV Require Import Base Words.
From Coq Require Import Nnat Znat.
Open Scope N_scope.

Lemma val_byte x : val_of (byte_of x) = x mod 256.
Proof. unfold val_of, byte_of. apply N_ascii_embedding. apply N.mod_lt. discriminate. Qed.

Lemma be_enc_length w x : List.length (be_enc w x) = w.
Proof. induction w; cbn; [reflexivity|now rewrite IHw]. Qed.

Lemma be_dec_acc l : forall acc, fold_left (fun a b => a * 256 + val_of b) l acc =
                                 acc * 256 ^ N.of_nat (List.length l) + be_dec l.
Proof.
  unfold be_dec. induction l as [|b l IH]; intros acc.
  - cbn. lia.
  - cbn [fold_left List.length]. rewrite IH. rewrite (IH (0 * 256 + val_of b)).
    rewrite Nat2N.inj_succ, N.pow_succ_r'. lia.
Qed.

Lemma be_dec_enc_mod w : forall x, be_dec (be_enc w x) = x mod 256 ^ N.of_nat w.
Proof.
  induction w as [|w IH]; intros x.
  - cbn. now rewrite N.mod_1_r.
  - cbn [be_enc]. unfold be_dec. cbn [fold_left]. rewrite be_dec_acc, be_enc_length, IH, val_byte.
    rewrite Nat2N.inj_succ, N.pow_succ_r'.
    set (p := 256 ^ N.of_nat w).
    assert (Hp : p <> 0) by (apply N.pow_nonzero; discriminate).
    rewrite (N.mul_comm 256 p). rewrite N.mod_mul_r by (assumption || discriminate). lia.
Qed.

Lemma be_dec_enc w x : x < 256 ^ N.of_nat w -> be_dec (be_enc w x) = x.
Proof. intros H. rewrite be_dec_enc_mod. now apply N.mod_small. Qed.

Lemma dec_enc little w x : x < 256 ^ N.of_nat w -> dec little (enc little w x) = x.
Proof.
  intros H. destruct little; cbv [dec enc Words.le_dec Words.le_enc].
  - rewrite List.rev_involutive. now apply be_dec_enc.
  - now apply be_dec_enc.
Qed.

Lemma enc_length little w x : List.length (enc little w x) = w.
Proof. destruct little; cbv [enc le_enc]; rewrite ?rev_length; apply be_enc_length. Qed.

(* two's complement round trip *)
Lemma pow256 w : (256 ^ N.of_nat w)%N = Z.to_N (2 ^ (8 * Z.of_nat w))%Z.
Proof.
  induction w as [|w IH]; [reflexivity|].
  rewrite Nat2N.inj_succ, N.pow_succ_r', IH, Nat2Z.inj_succ.
  replace (8 * Z.succ (Z.of_nat w))%Z with (8 + 8 * Z.of_nat w)%Z by lia.
  rewrite Z.pow_add_r by lia. rewrite Z2N.inj_mul by (try apply Z.pow_nonneg; lia). reflexivity.
Qed.

Lemma to_unsigned_bound w z : to_unsigned w z < 256 ^ N.of_nat w.
Proof.
  unfold to_unsigned. rewrite pow256.
  assert (0 < 2 ^ (8 * Z.of_nat w))%Z by (apply Z.pow_pos_nonneg; lia).
  apply Z2N.inj_lt; try lia; apply Z.mod_pos_bound; assumption.
Qed.

Lemma signed_roundtrip w z :
  (0 < w)%nat -> (- 2 ^ (8 * Z.of_nat w - 1) <= z < 2 ^ (8 * Z.of_nat w - 1))%Z ->
  to_signed w (to_unsigned w z) = z.
Proof.
  intros Hw Hz. unfold to_signed, to_unsigned.
  set (m := (2 ^ (8 * Z.of_nat w))%Z).
  assert (Hm : (m = 2 * 2 ^ (8 * Z.of_nat w - 1))%Z).
  { unfold m. rewrite <- Z.pow_succ_r by lia. f_equal. lia. }
  assert (Hpos : (0 < 2 ^ (8 * Z.of_nat w - 1))%Z) by (apply Z.pow_pos_nonneg; lia).
  rewrite Z2N.id by (apply Z.mod_pos_bound; lia).
  assert (Hhalf : (m / 2 = 2 ^ (8 * Z.of_nat w - 1))%Z).
  { rewrite Hm. rewrite Z.mul_comm. apply Z.div_mul. lia. }
  rewrite Hhalf.
  destruct (Z_lt_le_dec z 0) as [Hneg|Hnn].
  - assert (E : (z mod m = z + m)%Z).
    { symmetry. apply Z.mod_unique with (q := (-1)%Z); lia. }
    rewrite E. destruct (z + m <? 2 ^ (8 * Z.of_nat w - 1))%Z eqn:C; lia.
  - rewrite Z.mod_small by lia. destruct (z <? 2 ^ (8 * Z.of_nat w - 1))%Z eqn:C; lia.
Qed.

Lemma unsigned_roundtrip w z :
  (0 <= z < 2 ^ (8 * Z.of_nat w))%Z -> Z.of_N (to_unsigned w z) = z.
Proof.
  intros Hz. unfold to_unsigned. rewrite Z.mod_small by lia. apply Z2N.id. lia.
Qed.

Lemma take_app n a b : List.length a = n -> take n (a ++ b) = Some (a, b).
Proof.
  intros <-. unfold take. rewrite app_length.
  replace (List.length a <=? List.length a + List.length b)%nat with true by (symmetry; apply Nat.leb_le; lia).
  rewrite firstn_app, Nat.sub_diag, firstn_all. cbn [firstn]. rewrite app_nil_r.
  rewrite skipn_app, Nat.sub_diag, skipn_all. reflexivity.
Qed.
