(* C07, third clause: a DDS written in ANY layout of the DDS grammar - free white space after every token, keywords and type
   words in any letter case, Url and the Int / UInt aliases, named or anonymous dimensions with any decimal spelling - parses to
   exactly what it declares.  The text is described by a tree that carries, besides the declaration, the white space that
   follows each token and the spelling of each word; [ftext] writes it out, [fdecl] is what it declares. *)
From PydapV Require Import Base Quote QuoteProofs StrLemmas DDS DDSProofs.
From Coq Require Import Lia.
Open Scope nat_scope.

(* one dimension: "[" gap (name gap "=" gap)? digits gap "]" gap *)
Record fdim := mkFdim { fd_g0 : chars; fd_name : option (chars * chars * chars); fd_digits : chars; fd_g1 : chars; fd_g2 : chars }.

Inductive ftree :=
| FBase (tyw g1 name : chars) (dims : list fdim) (g2 : chars)
    (* typeword gap name dims ";" gap *)
| FCont (seq : bool) (kw g1 g2 : chars) (kids : list ftree) (g3 name g4 : chars)
    (* keyword gap "{" gap kids "}" gap name ";" gap *)
| FGrid (kw g1 g2 akw g3 g4 : chars) (array : ftree) (mkw g5 g6 : chars) (maps : list ftree) (g7 name g8 : chars).
    (* keyword gap "{" gap arraykw gap ":" gap base mapskw gap ":" gap bases "}" gap name ";" gap *)

Definition fdim_text (d : fdim) : chars :=
  "["%char :: fd_g0 d ++
  match fd_name d with Some (n, ga, gb) => n ++ ga ++ "="%char :: gb | None => [] end ++
  fd_digits d ++ fd_g1 d ++ "]"%char :: fd_g2 d.

Fixpoint ftext (t : ftree) : chars :=
  match t with
  | FBase tyw g1 name dims g2 => tyw ++ g1 ++ name ++ flat_map fdim_text dims ++ ";"%char :: g2
  | FCont _ kw g1 g2 kids g3 name g4 =>
      kw ++ g1 ++ "{"%char :: g2 ++ flat_map ftext kids ++ "}"%char :: g3 ++ name ++ ";"%char :: g4
  | FGrid kw g1 g2 akw g3 g4 array mkw g5 g6 maps g7 name g8 =>
      kw ++ g1 ++ "{"%char :: g2 ++ akw ++ g3 ++ ":"%char :: g4 ++ ftext array ++
      mkw ++ g5 ++ ":"%char :: g6 ++ flat_map ftext maps ++ "}"%char :: g7 ++ name ++ ";"%char :: g8
  end.

(* what the text declares *)
Definition fdim_size (d : fdim) : option nat := to_nat_dec (fd_digits d).
Definition fdim_names (d : fdim) : list chars := match fd_name d with Some (n, _, _) => [n] | None => [] end.

Fixpoint omapl {X Y} (f : X -> option Y) (l : list X) : option (list Y) :=
  match l with [] => Some [] | x :: r => match f x, omapl f r with Some y, Some ys => Some (y :: ys) | _, _ => None end end.

Fixpoint fdecl (t : ftree) : option dtree :=
  match t with
  | FBase tyw _ name dims _ =>
      match type_of tyw, omapl fdim_size dims with
      | Some ty, Some shape => Some (TBase ty (quote name) (flat_map fdim_names dims) shape)
      | _, _ => None
      end
  | FCont seq _ _ _ kids _ name _ =>
      match (fix go (l : list ftree) : option (list dtree) :=
               match l with [] => Some [] | x :: r => match fdecl x, go r with Some y, Some ys => Some (y :: ys) | _, _ => None end end) kids with
      | Some ks => Some ((if seq then TSeq else TStruct) (quote name) ks)
      | None => None
      end
  | FGrid _ _ _ _ _ _ array _ _ _ maps _ name _ =>
      match fdecl array,
            (fix go (l : list ftree) : option (list dtree) :=
               match l with [] => Some [] | x :: r => match fdecl x, go r with Some y, Some ys => Some (y :: ys) | _, _ => None end end) maps with
      | Some a, Some ms => Some (TGrid (quote name) a ms)
      | _, _ => None
      end
  end.

(* ------------------------------------------------------------------ well-formed layouts *)
Definition gap (g : chars) : bool := forallb is_space g.
Definition word (w : chars) : bool := negb (match w with [] => true | _ => false end) && forallb is_word w.
Definition spells (w : chars) (k : string) : bool := String.eqb (l2s (map lower w)) k.
Definition basename_ok (n : chars) : bool :=
  match n with c :: _ => negb (is_space c) | [] => false end && forallb not_semi_bracket n.
Definition contname_ok (n : chars) : bool :=
  match n with c :: _ => negb (is_space c) | [] => false end && forallb not_semi n.
Definition digits_ok (d : chars) : bool := negb (match d with [] => true | _ => false end) && forallb is_digit d.
Definition dimname_ok (n : chars) : bool := negb (match n with [] => true | _ => false end) && forallb is_dimchar n.

Definition wf_fdim (d : fdim) : bool :=
  gap (fd_g0 d) && gap (fd_g1 d) && gap (fd_g2 d) && digits_ok (fd_digits d) &&
  match fd_name d with Some (n, ga, gb) => dimname_ok n && gap ga && gap gb | None => true end.

Definition is_fbase (t : ftree) : bool := match t with FBase _ _ _ _ _ => true | _ => false end.

Fixpoint wf_ftree (t : ftree) : bool :=
  match t with
  | FBase tyw g1 name dims g2 =>
      word tyw && match type_of tyw with Some _ => true | None => false end &&
      gap g1 && negb (match g1 with [] => true | _ => false end) && basename_ok name && forallb wf_fdim dims && gap g2
  | FCont seq kw g1 g2 kids g3 name g4 =>
      word kw && spells kw (if seq then "sequence" else "structure") && gap g1 && gap g2 && forallb wf_ftree kids &&
      gap g3 && contname_ok name && gap g4
  | FGrid kw g1 g2 akw g3 g4 array mkw g5 g6 maps g7 name g8 =>
      word kw && spells kw "grid" && gap g1 && gap g2 && word akw && spells akw "array" && gap g3 && gap g4 &&
      is_fbase array && wf_ftree array && word mkw && spells mkw "maps" && gap g5 && gap g6 &&
      forallb is_fbase maps && forallb wf_ftree maps && gap g7 && contname_ok name && gap g8
  end.

(* ------------------------------------------------------------------ generic token lemmas *)
Lemma lstrip_gap g r : gap g = true -> lstrip (g ++ r) = lstrip r.
Proof.
  unfold gap. induction g as [|c g IH]; intros H; [reflexivity|]. cbn [forallb] in H. apply andb_true_iff in H as [Hc H].
  cbn [app lstrip]. rewrite Hc. apply IH, H.
Qed.

Definition starts_nonspace (r : chars) : Prop := match r with c :: _ => is_space c = false | [] => True end.
Lemma lstrip_id r : starts_nonspace r -> lstrip r = r.
Proof. destruct r as [|c r]; [reflexivity|]. cbn [starts_nonspace lstrip]. intros ->. reflexivity. Qed.

Lemma word_starts w r : word w = true -> starts_nonspace (w ++ r).
Proof.
  unfold word. destruct w as [|c w]; [discriminate|]. cbn [negb andb forallb app starts_nonspace]. intros H.
  apply andb_true_iff in H as [Hc _]. revert Hc. ascii_cases c; cbn; congruence.
Qed.

Lemma lower_idem c : lower (lower c) = lower c.
Proof. ascii_cases c; reflexivity. Qed.

Lemma prefix_ci_spelled (lit w r : chars) : map lower lit = map lower w -> prefix_ci lit (w ++ r) = Some r.
Proof.
  revert w; induction lit as [|a lit IH]; intros [|b w] H; cbn [map] in H; try discriminate; [reflexivity|].
  injection H as Hab H. cbn [app prefix_ci]. rewrite Hab, Ascii.eqb_refl. apply IH, H.
Qed.

Lemma spells_lower w k : spells w k = true -> map lower (s2l k) = map lower w.
Proof.
  unfold spells. intros H. apply String.eqb_eq in H. rewrite <- H. rewrite <- (l2s_s2l (l2s (map lower w))) at 1.
  assert (E : s2l (l2s (map lower w)) = map lower w).
  { generalize (map lower w). intros l. induction l as [|c l IH]; [reflexivity|]. cbn. f_equal. exact IH. }
  rewrite l2s_s2l. rewrite E. rewrite map_map. apply map_ext. intros c. apply lower_idem.
Qed.

Lemma consume_lit_spelled k w g r :
  spells w k = true -> gap g = true -> consume_lit (s2l k) (w ++ g ++ r) = Some (lstrip r).
Proof.
  intros Hs Hg. unfold consume_lit. rewrite (prefix_ci_spelled (s2l k) w (g ++ r) (spells_lower w k Hs)). cbn [option_map].
  rewrite (lstrip_gap g r Hg). reflexivity.
Qed.

Lemma consume_char c g r : gap g = true -> consume_lit [c] (c :: g ++ r) = Some (lstrip r).
Proof. intros Hg. rewrite consume_lit_cons, Ascii.eqb_refl. rewrite (lstrip_gap g r Hg). reflexivity. Qed.

Lemma keyword_word w c r : word w = true -> is_word c = false -> keyword (w ++ c :: r) = l2s (map lower w).
Proof.
  intros Hw Hc. unfold keyword. unfold word in Hw. apply andb_true_iff in Hw as [_ Hw]. rewrite (span_stop is_word w c r Hw Hc). reflexivity.
Qed.

Lemma space_not_word c : is_space c = true -> is_word c = false.
Proof. ascii_cases c; cbn; congruence. Qed.

(* the first character after a word and its gap, when the next token starts with a non-word character *)
Lemma after_word_stop (g : chars) (c : ascii) (r : chars) :
  gap g = true -> is_word c = false -> exists c' r', g ++ c :: r = c' :: r' /\ is_word c' = false.
Proof.
  intros Hg Hc. destruct g as [|x g]; [exists c, r; split; [reflexivity|exact Hc]|].
  exists x, (g ++ c :: r). split; [reflexivity|]. unfold gap in Hg. cbn [forallb] in Hg. apply andb_true_iff in Hg as [Hx _].
  apply space_not_word, Hx.
Qed.

Lemma span_word_gap (p : ascii -> bool) w g c r :
  forallb p w = true -> gap g = true -> (forall x, is_space x = true -> p x = false) -> p c = false ->
  span p (w ++ g ++ c :: r) = (w, g ++ c :: r).
Proof.
  intros Hw Hg Hsp Hc. destruct g as [|x g]; cbn [app].
  - apply span_stop; assumption.
  - apply span_stop; [exact Hw|]. apply Hsp. unfold gap in Hg. cbn [forallb] in Hg. apply andb_true_iff in Hg. apply Hg.
Qed.

Lemma consume_class_gap (p : ascii -> bool) w g c r :
  w <> [] -> forallb p w = true -> gap g = true -> (forall x, is_space x = true -> p x = false) -> p c = false ->
  is_space c = false ->
  consume_class p (w ++ g ++ c :: r) = Some (w, c :: r).
Proof.
  intros Hn Hw Hg Hsp Hc Hcs. unfold consume_class. rewrite (span_word_gap p w g c r Hw Hg Hsp Hc).
  destruct w; [congruence|]. rewrite (lstrip_gap g (c :: r) Hg). rewrite lstrip_keep by exact Hcs. reflexivity.
Qed.

Lemma space_not_dimchar x : is_space x = true -> is_dimchar x = false.
Proof. ascii_cases x; cbn; congruence. Qed.
Lemma space_not_digit x : is_space x = true -> is_digit x = false.
Proof. ascii_cases x; cbn; congruence. Qed.

Lemma nonnil_of_b {X} (l : list X) : negb (match l with [] => true | _ => false end) = true -> l <> [].
Proof. destruct l; [discriminate|discriminate]. Qed.

Lemma fdim_step f d T k :
  wf_fdim d = true -> starts_delim T -> fdim_size d = Some k ->
  parse_dims (S f) (fdim_text d ++ T) =
  do r <- parse_dims f T; Some (k :: fst (fst r), fdim_names d ++ snd (fst r), snd r).
Proof.
  intros Hw HT Hk. pose proof (starts_delim_lstrip T HT) as HlT. unfold wf_fdim in Hw.
  apply andb_true_iff in Hw as [Hw Hnm]. apply andb_true_iff in Hw as [Hw Hdig]. apply andb_true_iff in Hw as [Hw Hg2].
  apply andb_true_iff in Hw as [Hg0 Hg1]. unfold digits_ok in Hdig. apply andb_true_iff in Hdig as [Hdn Hdd].
  apply nonnil_of_b in Hdn. unfold fdim_size in Hk.
  destruct d as [g0 nm ds g1 g2]. cbn [fd_g0 fd_name fd_digits fd_g1 fd_g2] in *. unfold fdim_text, fdim_names. cbn [fd_g0 fd_name fd_digits fd_g1 fd_g2].
  assert (Hds : exists c r, ds = c :: r /\ is_digit c = true) by (destruct ds as [|c r]; [congruence|]; cbn [forallb] in Hdd; apply andb_true_iff in Hdd as [Hc _]; eauto).
  destruct Hds as (c0 & r0 & Eds & Hc0).
  cbn [app]. cbn [parse_dims]. rewrite peek_lit_cons. change (Ascii.eqb (lower ";"%char) (lower "["%char)) with false. cbv iota.
  destruct nm as [[[n ga] gb]|].
  - (* named *)
    apply andb_true_iff in Hnm as [Hnm Hgb]. apply andb_true_iff in Hnm as [Hn Hga]. unfold dimname_ok in Hn.
    apply andb_true_iff in Hn as [Hnn Hnc]. apply nonnil_of_b in Hnn.
    rewrite <- ?app_assoc. cbn [app]. rewrite <- ?app_assoc.
    rewrite consume_lit_cons. change (Ascii.eqb (lower "["%char) (lower "["%char)) with true. cbv iota. cbn [obind].
    rewrite (lstrip_gap g0 _ Hg0).
    assert (Hns : starts_nonspace (n ++ ga ++ "="%char :: gb ++ ds ++ g1 ++ "]"%char :: g2 ++ T)).
    { destruct n as [|x n]; [congruence|]. cbn [forallb] in Hnc. apply andb_true_iff in Hnc as [Hx _]. cbn [app starts_nonspace].
      apply dimchar_nospace, Hx. }
    rewrite (lstrip_id _ Hns).
    rewrite (consume_class_gap is_dimchar n ga "="%char); [|exact Hnn|exact Hnc|exact Hga|apply space_not_dimchar|reflexivity|reflexivity].
    cbn [obind fst snd]. rewrite peek_lit_cons. change (Ascii.eqb (lower "="%char) (lower "="%char)) with true. cbv iota.
    rewrite consume_lit_cons. change (Ascii.eqb (lower "="%char) (lower "="%char)) with true. cbv iota. cbn [obind].
    rewrite (lstrip_gap gb _ Hgb).
    assert (Hns2 : starts_nonspace (ds ++ g1 ++ "]"%char :: g2 ++ T)).
    { rewrite Eds. cbn [app starts_nonspace]. apply dimchar_nospace, digit_dimchar, Hc0. }
    rewrite (lstrip_id _ Hns2).
    rewrite (consume_class_gap is_digit ds g1 "]"%char); [|exact Hdn|exact Hdd|exact Hg1|apply space_not_digit|reflexivity|reflexivity].
    cbn [obind fst snd]. rewrite Hk. cbn [obind fst snd].
    rewrite consume_lit_cons. change (Ascii.eqb (lower "]"%char) (lower "]"%char)) with true. cbv iota. cbn [obind].
    rewrite (lstrip_gap g2 T Hg2), HlT. reflexivity.
  - (* anonymous *)
    cbn [app]. rewrite <- ?app_assoc. cbn [app]. rewrite <- ?app_assoc.
    rewrite consume_lit_cons. change (Ascii.eqb (lower "["%char) (lower "["%char)) with true. cbv iota. cbn [obind].
    rewrite (lstrip_gap g0 _ Hg0).
    assert (Hns2 : starts_nonspace (ds ++ g1 ++ "]"%char :: g2 ++ T)).
    { rewrite Eds. cbn [app starts_nonspace]. apply dimchar_nospace, digit_dimchar, Hc0. }
    rewrite (lstrip_id _ Hns2).
    rewrite (consume_class_gap is_dimchar ds g1 "]"%char);
      [|exact Hdn|apply (forallb_impl is_digit); [apply digit_dimchar|exact Hdd]|exact Hg1|apply space_not_dimchar|reflexivity|reflexivity].
    cbn [obind fst snd]. rewrite peek_lit_cons. change (Ascii.eqb (lower "="%char) (lower "]"%char)) with false. cbv iota.
    rewrite Hk. cbn [obind fst snd].
    rewrite consume_lit_cons. change (Ascii.eqb (lower "]"%char) (lower "]"%char)) with true. cbv iota. cbn [obind].
    rewrite (lstrip_gap g2 T Hg2), HlT. reflexivity.
Qed.

Lemma fdims_head dims R : exists c T', flat_map fdim_text dims ++ ";"%char :: R = c :: T' /\ (c = "["%char \/ c = ";"%char).
Proof. destruct dims as [|d dims]; cbn [flat_map app]; [eexists _, _; split; [reflexivity|auto]|]. unfold fdim_text. cbn [app]. eexists _, _. split; [reflexivity|auto]. Qed.

Lemma parse_fdims dims : forall f R shape,
  forallb wf_fdim dims = true -> List.length dims < f -> omapl fdim_size dims = Some shape ->
  parse_dims f (flat_map fdim_text dims ++ ";"%char :: R) = Some (shape, flat_map fdim_names dims, ";"%char :: R).
Proof.
  induction dims as [|d dims IH]; intros f R shape Hw Hf Hs.
  - destruct f as [|f]; [cbn in Hf; lia|]. cbn in Hs. injection Hs as <-. cbn [flat_map app parse_dims]. rewrite peek_lit_cons. reflexivity.
  - destruct f as [|f]; [cbn in Hf; lia|]. cbn [forallb] in Hw. apply andb_true_iff in Hw as [Hd Hw].
    cbn [omapl] in Hs. destruct (fdim_size d) as [k|] eqn:Ek; [|discriminate]. destruct (omapl fdim_size dims) as [rest|] eqn:Er; [|discriminate].
    injection Hs as <-. cbn [flat_map]. rewrite <- app_assoc.
    rewrite (fdim_step f d _ k Hd); [|destruct (fdims_head dims R) as (c & T' & E & Hc); exists c, T'; split; assumption|exact Ek].
    rewrite (IH f R rest Hw); [reflexivity|cbn in Hf; lia|reflexivity].
Qed.

(* ------------------------------------------------------------------ a base declaration *)
Definition fsize_dims (dims : list fdim) : nat := List.length dims.

Lemma type_of_not_container w ty : type_of w = Some ty ->
  String.eqb (l2s (map lower w)) "structure" || String.eqb (l2s (map lower w)) "sequence" = false /\
  String.eqb (l2s (map lower w)) "grid" = false.
Proof.
  unfold type_of. set (l := l2s (map lower w)).
  repeat match goal with |- context [String.eqb l ?s] => let E := fresh "E" in destruct (String.eqb l s) eqn:E;
    [apply String.eqb_eq in E; rewrite E; intros _; split; reflexivity|] end.
  discriminate.
Qed.

Lemma parse_fbase tyw g1 name dims g2 f rest d :
  wf_ftree (FBase tyw g1 name dims g2) = true -> fdecl (FBase tyw g1 name dims g2) = Some d -> List.length dims < f ->
  parse_base f (ftext (FBase tyw g1 name dims g2) ++ rest) = Some (d, lstrip rest).
Proof.
  intros Hw Hd Hf. cbn [wf_ftree] in Hw.
  apply andb_true_iff in Hw as [Hw Hg2]. apply andb_true_iff in Hw as [Hw Hdims]. apply andb_true_iff in Hw as [Hw Hname].
  apply andb_true_iff in Hw as [Hw Hg1n]. apply andb_true_iff in Hw as [Hw Hg1]. apply andb_true_iff in Hw as [Hword Hty].
  cbn [fdecl] in Hd. destruct (type_of tyw) as [ty|] eqn:Ety; [|discriminate]. destruct (omapl fdim_size dims) as [shape|] eqn:Esh; [|discriminate].
  injection Hd as <-. cbn [ftext]. rewrite <- !app_assoc. cbn [app]. unfold parse_base.
  unfold word in Hword. apply andb_true_iff in Hword as [Hwn Hwc]. apply nonnil_of_b in Hwn. apply nonnil_of_b in Hg1n.
  unfold basename_ok in Hname. apply andb_true_iff in Hname as [Hn1 Hnc].
  destruct name as [|nc name]; [discriminate|]. apply negb_true_iff in Hn1.
  destruct g1 as [|x g1]; [congruence|]. pose proof Hg1 as Hg1'. unfold gap in Hg1'. cbn [forallb] in Hg1'. apply andb_true_iff in Hg1' as [Hx Hg1r].
  (* type word *)
  assert (E1 : consume_class is_word (tyw ++ (x :: g1) ++ (nc :: name) ++ flat_map fdim_text dims ++ ";"%char :: g2 ++ rest)
               = Some (tyw, (nc :: name) ++ flat_map fdim_text dims ++ ";"%char :: g2 ++ rest)).
  { unfold consume_class. cbn [app]. rewrite (span_stop is_word tyw x); [|exact Hwc|apply space_not_word, Hx].
    destruct tyw; [congruence|]. cbn [lstrip]. rewrite Hx. rewrite (lstrip_gap g1 _ Hg1r). cbn [app]. rewrite lstrip_keep by exact Hn1. reflexivity. }
  rewrite E1. cbn [obind fst snd]. rewrite Ety. cbn [obind].
  (* name *)
  destruct (fdims_head dims (g2 ++ rest)) as (c & T' & E & Hc). rewrite E.
  rewrite (consume_class_stop not_semi_bracket (nc :: name) c T'); [|discriminate|exact Hnc|destruct Hc as [-> | ->]; reflexivity].
  cbn [obind fst snd]. assert (Hl : lstrip (c :: T') = c :: T') by (destruct Hc as [-> | ->]; reflexivity). rewrite Hl, <- E.
  rewrite (parse_fdims dims f (g2 ++ rest) shape Hdims Hf Esh). cbn [obind fst snd].
  rewrite (consume_char ";"%char g2 rest Hg2). reflexivity.
Qed.

(* ------------------------------------------------------------------ containers *)
Lemma until_brace_gen {X} (p : chars -> option (dtree * chars)) (pr : X -> chars) (res : X -> dtree) xs :
  forall n T,
  (forall x r, In x xs -> p (lstrip (pr x ++ r)) = Some (res x, lstrip r)) ->
  (forall x r, In x xs -> peek_lit ["}"%char] (lstrip (pr x ++ r)) = false) ->
  peek_lit ["}"%char] (lstrip T) = true -> List.length xs < n ->
  until_brace p n (lstrip (flat_map pr xs ++ T)) = Some (map res xs, lstrip T).
Proof.
  induction xs as [|x xs IH]; intros n T Hp Hk HT Hn.
  - destruct n as [|n]; [cbn in Hn; lia|]. cbn [flat_map app until_brace map]. rewrite HT. reflexivity.
  - destruct n as [|n]; [cbn in Hn; lia|]. cbn [flat_map]. rewrite <- app_assoc. cbn [until_brace].
    rewrite Hk by (left; reflexivity). rewrite Hp by (left; reflexivity). cbn [obind fst snd].
    rewrite IH; [reflexivity| | |exact HT|cbn in Hn; lia].
    + intros y r Hin. apply Hp. right. exact Hin.
    + intros y r Hin. apply Hk. right. exact Hin.
Qed.

Lemma keyword_spelled w g c r k :
  word w = true -> spells w k = true -> gap g = true -> is_word c = false -> keyword (w ++ g ++ c :: r) = k.
Proof.
  intros Hw Hs Hg Hc. destruct (after_word_stop g c r Hg Hc) as (c' & r' & E & Hc'). rewrite E.
  rewrite (keyword_word w c' r' Hw Hc'). unfold spells in Hs. apply String.eqb_eq in Hs. exact Hs.
Qed.

Lemma ftail name g3 g4 rest :
  gap g3 = true -> contname_ok name = true -> gap g4 = true ->
  parse_tail ("}"%char :: g3 ++ name ++ ";"%char :: g4 ++ rest) = Some (quote name, lstrip rest).
Proof.
  intros H3 Hn H4. unfold parse_tail. rewrite (consume_char "}"%char g3 _ H3). cbn [obind].
  unfold contname_ok in Hn. apply andb_true_iff in Hn as [Hn1 Hnc]. destruct name as [|c name]; [discriminate|].
  apply negb_true_iff in Hn1. cbn [app]. rewrite lstrip_keep by exact Hn1.
  change (c :: name ++ ";"%char :: g4 ++ rest) with ((c :: name) ++ ";"%char :: g4 ++ rest).
  rewrite (consume_class_stop not_semi (c :: name) ";"%char); [|discriminate|exact Hnc|reflexivity].
  cbn [obind fst snd]. change (lstrip (";"%char :: ?X)) with (";"%char :: X). rewrite (consume_char ";"%char g4 rest H4). reflexivity.
Qed.

Fixpoint fsize (t : ftree) : nat :=
  match t with
  | FBase _ _ _ dims _ => 2 + List.length dims
  | FCont _ _ _ _ kids _ _ _ => 2 + List.length kids + list_sum (map fsize kids)
  | FGrid _ _ _ _ _ _ a _ _ _ maps _ _ _ => 2 + fsize a + List.length maps + list_sum (map fsize maps)
  end.

Section FInd.
  Variable P : ftree -> Prop.
  Hypothesis Hb : forall a b c d e, P (FBase a b c d e).
  Hypothesis Hc : forall s kw g1 g2 kids g3 n g4, Forall P kids -> P (FCont s kw g1 g2 kids g3 n g4).
  Hypothesis Hg : forall kw g1 g2 akw g3 g4 a mkw g5 g6 maps g7 n g8, P a -> Forall P maps -> P (FGrid kw g1 g2 akw g3 g4 a mkw g5 g6 maps g7 n g8).
  Fixpoint ftree_ind2 (t : ftree) : P t :=
    let go := (fix go (l : list ftree) : Forall P l :=
                 match l with [] => Forall_nil _ | x :: r => Forall_cons _ (ftree_ind2 x) (go r) end) in
    match t with
    | FBase a b c d e => Hb a b c d e
    | FCont s kw g1 g2 kids g3 n g4 => Hc s kw g1 g2 kids g3 n g4 (go kids)
    | FGrid kw g1 g2 akw g3 g4 a mkw g5 g6 maps g7 n g8 => Hg kw g1 g2 akw g3 g4 a mkw g5 g6 maps g7 n g8 (ftree_ind2 a) (go maps)
    end.
End FInd.

Definition dummy : dtree := TBase Byte [] [] [].
Definition fres (t : ftree) : dtree := match fdecl t with Some d => d | None => dummy end.

Lemma fdecl_list kids ks :
  (fix go (l : list ftree) : option (list dtree) :=
     match l with [] => Some [] | x :: r => match fdecl x, go r with Some y, Some ys => Some (y :: ys) | _, _ => None end end) kids = Some ks ->
  ks = map fres kids /\ forall k, In k kids -> fdecl k = Some (fres k).
Proof.
  revert ks; induction kids as [|k kids IH]; intros ks H.
  - injection H as <-. split; [reflexivity|intros k []].
  - destruct (fdecl k) as [y|] eqn:Ek; [|discriminate].
    destruct ((fix go (l : list ftree) : option (list dtree) :=
                 match l with [] => Some [] | x :: r => match fdecl x, go r with Some y, Some ys => Some (y :: ys) | _, _ => None end end) kids) as [ys|] eqn:Eg; [|discriminate].
    injection H as <-. destruct (IH ys eq_refl) as [-> Hall]. split.
    + cbn [map]. f_equal. unfold fres. rewrite Ek. reflexivity.
    + intros x [E | Hx]; [subst x; unfold fres; rewrite Ek; reflexivity|apply Hall, Hx].
Qed.

Lemma ftext_starts t r : wf_ftree t = true -> starts_nonspace (ftext t ++ r).
Proof.
  destruct t; cbn [wf_ftree ftext]; intros H; rewrite <- ?app_assoc; apply word_starts;
    repeat (let H' := fresh "H'" in apply andb_true_iff in H as [H H']);
      first [exact H | unfold word; apply andb_true_iff; split; assumption].
Qed.

Lemma ftext_not_brace t r : wf_ftree t = true -> peek_lit ["}"%char] (lstrip (ftext t ++ r)) = false.
Proof.
  intros H. rewrite (lstrip_id _ (ftext_starts t r H)).
  assert (Hw : exists w x, ftext t ++ r = w ++ x /\ word w = true).
  { destruct t; cbn [wf_ftree ftext] in *; rewrite <- ?app_assoc; eexists _, _; (split; [reflexivity|]);
      repeat (let H' := fresh "H'" in apply andb_true_iff in H as [H H']);
      first [exact H | unfold word; apply andb_true_iff; split; assumption]. }
  destruct Hw as (w & x & -> & Hw). unfold word in Hw. destruct w as [|c w]; [discriminate|]. cbn [negb andb forallb] in Hw.
  apply andb_true_iff in Hw as [Hc _]. cbn [app]. rewrite peek_lit_cons. revert Hc. ascii_cases c; cbn; congruence.
Qed.

(* ------------------------------------------------------------------ the parser on any layout *)
Lemma in_sum_le4 (k : ftree) ks : In k ks -> fsize k <= list_sum (map fsize ks).
Proof.
  induction ks as [|x ks IH]; intros H; [destruct H|]. cbn [map list_sum fold_right]. destruct H as [-> | H]; [lia|].
  specialize (IH H). unfold list_sum in IH. lia.
Qed.

Lemma brace_not_word : is_word "{"%char = false. Proof. reflexivity. Qed.
Lemma colon_not_word : is_word ":"%char = false. Proof. reflexivity. Qed.

Theorem parse_ftext t : forall fuel rest d,
  wf_ftree t = true -> fdecl t = Some d -> fsize t <= fuel ->
  parse_decl fuel (lstrip (ftext t ++ rest)) = Some (d, lstrip rest).
Proof.
  induction t as [tyw g1 name dims g2|sq kw g1 g2 kids g3 name g4 IH|kw g1 g2 akw g3 g4 a mkw g5 g6 maps g7 name g8 IHa IHm]
    using ftree_ind2; intros fuel rest d Hw Hd Hf.
  - (* base *)
    rewrite (lstrip_id _ (ftext_starts _ rest Hw)). destruct fuel as [|f]; [cbn in Hf; lia|].
    pose proof Hw as Hw'. cbn [wf_ftree] in Hw'.
    apply andb_true_iff in Hw' as [Hw' _]. apply andb_true_iff in Hw' as [Hw' _]. apply andb_true_iff in Hw' as [Hw' _].
    apply andb_true_iff in Hw' as [Hw' Hg1n]. apply andb_true_iff in Hw' as [Hw' Hg1]. apply andb_true_iff in Hw' as [Hword Hty].
    destruct (type_of tyw) as [ty|] eqn:Ety; [|discriminate].
    assert (Hkw : keyword (ftext (FBase tyw g1 name dims g2) ++ rest) = l2s (map lower tyw)).
    { cbn [ftext]. rewrite <- !app_assoc. destruct g1 as [|x g1]; [discriminate|]. cbn [app].
      apply keyword_word; [exact Hword|]. unfold gap in Hg1. cbn [forallb] in Hg1. apply andb_true_iff in Hg1 as [Hx _]. apply space_not_word, Hx. }
    destruct (type_of_not_container tyw ty Ety) as [N1 N2].
    cbn [parse_decl]. rewrite Hkw, N1, N2. cbv iota.
    apply parse_fbase; [exact Hw|exact Hd|cbn [fsize] in Hf; lia].
  - (* Structure / Sequence *)
    rewrite (lstrip_id _ (ftext_starts _ rest Hw)). destruct fuel as [|f]; [cbn in Hf; lia|].
    cbn [wf_ftree] in Hw.
    apply andb_true_iff in Hw as [Hw Hg4]. apply andb_true_iff in Hw as [Hw Hname]. apply andb_true_iff in Hw as [Hw Hg3].
    apply andb_true_iff in Hw as [Hw Hkids]. apply andb_true_iff in Hw as [Hw Hg2]. apply andb_true_iff in Hw as [Hw Hg1].
    apply andb_true_iff in Hw as [Hword Hsp].
    cbn [fdecl] in Hd.
    destruct ((fix go (l : list ftree) : option (list dtree) :=
                 match l with [] => Some [] | x :: r => match fdecl x, go r with Some y, Some ys => Some (y :: ys) | _, _ => None end end) kids)
      as [ks|] eqn:Eks; [|discriminate].
    injection Hd as <-. destruct (fdecl_list kids ks Eks) as [-> Hall].
    cbn [ftext fsize] in *. repeat (progress (rewrite <- ?app_assoc; cbn [app])).
    set (K := if sq then "sequence"%string else "structure"%string) in *.
    assert (Hkw : keyword (kw ++ g1 ++ "{"%char :: g2 ++ flat_map ftext kids ++ "}"%char :: g3 ++ name ++ ";"%char :: g4 ++ rest) = K)
      by (apply keyword_spelled; [exact Hword|exact Hsp|exact Hg1|apply brace_not_word]).
    cbn [parse_decl]. rewrite Hkw.
    assert (Hsel : String.eqb K "structure" || String.eqb K "sequence" = true) by (unfold K; destruct sq; reflexivity).
    rewrite Hsel. cbv iota.
    rewrite (consume_lit_spelled K kw g1 _ Hsp Hg1). cbn [obind].
    change (lstrip ("{"%char :: ?X)) with ("{"%char :: X).
    rewrite (consume_char "{"%char g2 _ Hg2). cbn [obind].
    rewrite (until_brace_gen (parse_decl f) ftext fres kids f ("}"%char :: g3 ++ name ++ ";"%char :: g4 ++ rest)).
    + cbn [obind fst snd]. change (lstrip ("}"%char :: ?X)) with ("}"%char :: X).
      rewrite (ftail name g3 g4 rest Hg3 Hname Hg4). cbn [obind fst snd]. unfold K. destruct sq; reflexivity.
    + intros x r Hin. rewrite Forall_forall in IH. apply IH; [exact Hin| |apply Hall, Hin|].
      * rewrite forallb_forall in Hkids. apply Hkids, Hin.
      * pose proof (in_sum_le4 x kids Hin). lia.
    + intros x r Hin. apply ftext_not_brace. rewrite forallb_forall in Hkids. apply Hkids, Hin.
    + reflexivity.
    + lia.
  - (* Grid *)
    rewrite (lstrip_id _ (ftext_starts _ rest Hw)). destruct fuel as [|f]; [cbn in Hf; lia|].
    cbn [wf_ftree] in Hw.
    apply andb_true_iff in Hw as [Hw Hg8]. apply andb_true_iff in Hw as [Hw Hname]. apply andb_true_iff in Hw as [Hw Hg7].
    apply andb_true_iff in Hw as [Hw Hwm]. apply andb_true_iff in Hw as [Hw Hbm]. apply andb_true_iff in Hw as [Hw Hg6].
    apply andb_true_iff in Hw as [Hw Hg5]. apply andb_true_iff in Hw as [Hw Hmsp]. apply andb_true_iff in Hw as [Hw Hmw].
    apply andb_true_iff in Hw as [Hw Hwa]. apply andb_true_iff in Hw as [Hw Hba]. apply andb_true_iff in Hw as [Hw Hg4].
    apply andb_true_iff in Hw as [Hw Hg3]. apply andb_true_iff in Hw as [Hw Hasp]. apply andb_true_iff in Hw as [Hw Haw].
    apply andb_true_iff in Hw as [Hw Hg2]. apply andb_true_iff in Hw as [Hw Hg1]. apply andb_true_iff in Hw as [Hword Hsp].
    cbn [fdecl] in Hd. destruct (fdecl a) as [da|] eqn:Eda; [|discriminate].
    destruct ((fix go (l : list ftree) : option (list dtree) :=
                 match l with [] => Some [] | x :: r => match fdecl x, go r with Some y, Some ys => Some (y :: ys) | _, _ => None end end) maps)
      as [ms|] eqn:Ems; [|discriminate].
    injection Hd as <-. destruct (fdecl_list maps ms Ems) as [-> Hall].
    cbn [ftext fsize] in *. repeat (progress (rewrite <- ?app_assoc; cbn [app])).
    assert (Hkw : keyword (kw ++ g1 ++ "{"%char :: g2 ++ akw ++ g3 ++ ":"%char :: g4 ++ ftext a ++ mkw ++ g5 ++ ":"%char :: g6 ++
                           flat_map ftext maps ++ "}"%char :: g7 ++ name ++ ";"%char :: g8 ++ rest) = "grid"%string)
      by (apply keyword_spelled; [exact Hword|exact Hsp|exact Hg1|apply brace_not_word]).
    cbn [parse_decl]. rewrite Hkw. cbv iota. change (String.eqb "grid" "structure" || String.eqb "grid" "sequence") with false.
    change (String.eqb "grid" "grid") with true. cbv iota.
    rewrite (consume_lit_spelled "grid" kw g1 _ Hsp Hg1). cbn [obind]. change (lstrip ("{"%char :: ?X)) with ("{"%char :: X).
    rewrite (consume_char "{"%char g2 _ Hg2). cbn [obind].
    rewrite (lstrip_id _ (word_starts akw _ Haw)).
    rewrite (consume_lit_spelled "array" akw g3 _ Hasp Hg3). cbn [obind]. change (lstrip (":"%char :: ?X)) with (":"%char :: X).
    rewrite (consume_char ":"%char g4 _ Hg4). cbn [obind].
    destruct a as [atw ag1 an adims ag2| |]; try discriminate Hba.
    rewrite (lstrip_id _ (ftext_starts _ _ Hwa)).
    rewrite (parse_fbase atw ag1 an adims ag2 f _ da Hwa Eda) by (cbn [fsize] in Hf; lia).
    cbn [obind fst snd]. rewrite (lstrip_id _ (word_starts mkw _ Hmw)).
    rewrite (consume_lit_spelled "maps" mkw g5 _ Hmsp Hg5). cbn [obind]. change (lstrip (":"%char :: ?X)) with (":"%char :: X).
    rewrite (consume_char ":"%char g6 _ Hg6). cbn [obind].
    rewrite (until_brace_gen (parse_base f) ftext fres maps f ("}"%char :: g7 ++ name ++ ";"%char :: g8 ++ rest)).
    + cbn [obind fst snd]. change (lstrip ("}"%char :: ?X)) with ("}"%char :: X).
      rewrite (ftail name g7 g8 rest Hg7 Hname Hg8). reflexivity.
    + intros x r Hin. rewrite forallb_forall in Hbm, Hwm. specialize (Hbm x Hin). specialize (Hwm x Hin).
      destruct x as [xt xg1 xn xd xg2| |]; try discriminate Hbm.
      rewrite (lstrip_id _ (ftext_starts _ r Hwm)).
      apply parse_fbase; [exact Hwm|apply Hall, Hin|].
      pose proof (in_sum_le4 _ maps Hin) as Hle. cbn [fsize] in Hle. lia.
    + intros x r Hin. apply ftext_not_brace. rewrite forallb_forall in Hwm. apply Hwm, Hin.
    + reflexivity.
    + lia.
Qed.

(* ------------------------------------------------------------------ the whole document *)
Definition fdataset_text (kw g1 g2 : chars) (kids : list ftree) (g3 name g4 trailing : chars) : chars :=
  kw ++ g1 ++ "{"%char :: g2 ++ flat_map ftext kids ++ "}"%char :: g3 ++ name ++ ";"%char :: g4 ++ trailing.

Lemma word_len w : word w = true -> 1 <= List.length w.
Proof. unfold word. destruct w; [discriminate|cbn; lia]. Qed.

Lemma fdims_len dims : List.length dims <= List.length (flat_map fdim_text dims).
Proof. induction dims as [|d dims IH]; [cbn; lia|]. cbn [flat_map]. rewrite app_length. unfold fdim_text at 1. cbn [List.length]. lia. Qed.

Lemma fsum_le (ks : list ftree) :
  Forall (fun k => fsize k + 1 <= List.length (ftext k)) ks ->
  List.length ks + list_sum (map fsize ks) <= List.length (flat_map ftext ks).
Proof.
  induction 1 as [|k ks Hk _ IH]; [cbn; lia|]. cbn [flat_map map list_sum fold_right List.length]. rewrite app_length. unfold list_sum in IH. lia.
Qed.

Lemma fsize_le_length t : wf_ftree t = true -> fsize t + 1 <= List.length (ftext t).
Proof.
  induction t as [tyw g1 name dims g2|sq kw g1 g2 kids g3 name g4 IH|kw g1 g2 akw g3 g4 a mkw g5 g6 maps g7 name g8 IHa IHm]
    using ftree_ind2; intros Hw; cbn [wf_ftree] in Hw.
  - apply andb_true_iff in Hw as [Hw _]. apply andb_true_iff in Hw as [Hw _]. apply andb_true_iff in Hw as [Hw Hname].
    apply andb_true_iff in Hw as [Hw Hg1n]. apply andb_true_iff in Hw as [Hw _]. apply andb_true_iff in Hw as [Hword _].
    cbn [fsize ftext]. rewrite !app_length. cbn [List.length]. pose proof (word_len tyw Hword). pose proof (fdims_len dims).
    unfold basename_ok in Hname. destruct name; [discriminate|]. destruct g1; [discriminate|]. cbn [List.length]. lia.
  - apply andb_true_iff in Hw as [Hw _]. apply andb_true_iff in Hw as [Hw _]. apply andb_true_iff in Hw as [Hw _].
    apply andb_true_iff in Hw as [Hw Hkids]. apply andb_true_iff in Hw as [Hw _]. apply andb_true_iff in Hw as [Hw _].
    apply andb_true_iff in Hw as [Hword _].
    cbn [fsize ftext]. rewrite !app_length. cbn [List.length]. rewrite !app_length. cbn [List.length]. rewrite !app_length. cbn [List.length].
    pose proof (word_len kw Hword).
    assert (Hf : Forall (fun k => fsize k + 1 <= List.length (ftext k)) kids).
    { apply Forall_forall. intros k Hk. rewrite Forall_forall in IH. apply IH; [exact Hk|]. rewrite forallb_forall in Hkids. apply Hkids, Hk. }
    pose proof (fsum_le kids Hf). lia.
  - apply andb_true_iff in Hw as [Hw _]. apply andb_true_iff in Hw as [Hw _]. apply andb_true_iff in Hw as [Hw _].
    apply andb_true_iff in Hw as [Hw Hwm]. apply andb_true_iff in Hw as [Hw _]. apply andb_true_iff in Hw as [Hw _].
    apply andb_true_iff in Hw as [Hw _]. apply andb_true_iff in Hw as [Hw _]. apply andb_true_iff in Hw as [Hw _].
    apply andb_true_iff in Hw as [Hw Hwa]. apply andb_true_iff in Hw as [Hw _]. apply andb_true_iff in Hw as [Hw _].
    apply andb_true_iff in Hw as [Hw _]. apply andb_true_iff in Hw as [Hw _]. apply andb_true_iff in Hw as [Hw _].
    apply andb_true_iff in Hw as [Hw _]. apply andb_true_iff in Hw as [Hw _]. apply andb_true_iff in Hw as [Hword _].
    cbn [fsize ftext]. repeat (rewrite !app_length; cbn [List.length]).
    pose proof (word_len kw Hword). specialize (IHa Hwa).
    assert (Hf : Forall (fun k => fsize k + 1 <= List.length (ftext k)) maps).
    { apply Forall_forall. intros k Hk. rewrite Forall_forall in IHm. apply IHm; [exact Hk|]. rewrite forallb_forall in Hwm. apply Hwm, Hk. }
    pose proof (fsum_le maps Hf). lia.
Qed.

Theorem parse_fdataset kw g1 g2 kids g3 name g4 trailing ks :
  word kw = true -> spells kw "dataset" = true -> gap g1 = true -> gap g2 = true -> forallb wf_ftree kids = true ->
  gap g3 = true -> contname_ok name = true -> gap g4 = true ->
  omapl fdecl kids = Some ks ->
  parse_dataset (fdataset_text kw g1 g2 kids g3 name g4 trailing) = Some (quote name, ks).
Proof.
  intros Hword Hsp Hg1 Hg2 Hkids Hg3 Hname Hg4 Hks.
  assert (Hall : ks = map fres kids /\ forall k, In k kids -> fdecl k = Some (fres k)).
  { clear -Hks. revert ks Hks. induction kids as [|k kids IH]; intros ks H; cbn [omapl] in H.
    - injection H as <-. split; [reflexivity|intros k []].
    - destruct (fdecl k) as [y|] eqn:Ek; [|discriminate]. destruct (omapl fdecl kids) as [ys|] eqn:Ey; [|discriminate].
      injection H as <-. destruct (IH ys eq_refl) as [-> Hall]. split.
      + cbn [map]. f_equal. unfold fres. rewrite Ek. reflexivity.
      + intros x [E | Hx]; [subst x; unfold fres; rewrite Ek; reflexivity|apply Hall, Hx]. }
  destruct Hall as [-> Hall].
  unfold parse_dataset, parse_dataset_fuel, fdataset_text.
  set (fuel := S (List.length (kw ++ g1 ++ "{"%char :: g2 ++ flat_map ftext kids ++ "}"%char :: g3 ++ name ++ ";"%char :: g4 ++ trailing))).
  rewrite (consume_lit_spelled "dataset" kw g1 _ Hsp Hg1). cbn [obind]. change (lstrip ("{"%char :: ?X)) with ("{"%char :: X).
  rewrite (consume_char "{"%char g2 _ Hg2). cbn [obind].
  rewrite (until_brace_gen (parse_decl fuel) ftext fres kids fuel ("}"%char :: g3 ++ name ++ ";"%char :: g4 ++ trailing)).
  - cbn [obind fst snd]. change (lstrip ("}"%char :: ?X)) with ("}"%char :: X).
    rewrite (ftail name g3 g4 trailing Hg3 Hname Hg4). reflexivity.
  - intros x r Hin. apply parse_ftext; [rewrite forallb_forall in Hkids; apply Hkids, Hin|apply Hall, Hin|].
    assert (Hx : fsize x + 1 <= List.length (ftext x)) by (apply fsize_le_length; rewrite forallb_forall in Hkids; apply Hkids, Hin).
    assert (Hl : List.length (ftext x) <= List.length (flat_map ftext kids)).
    { clear -Hin. induction kids as [|k kids IH]; [destruct Hin|]. cbn [flat_map]. rewrite app_length. destruct Hin as [-> | Hin]; [lia|].
      specialize (IH Hin). lia. }
    unfold fuel. rewrite !app_length. cbn [List.length]. rewrite !app_length. lia.
  - intros x r Hin. apply ftext_not_brace. rewrite forallb_forall in Hkids. apply Hkids, Hin.
  - reflexivity.
  - unfold fuel. rewrite !app_length. cbn [List.length]. rewrite !app_length.
    assert (Hf : Forall (fun k => fsize k + 1 <= List.length (ftext k)) kids).
    { apply Forall_forall. intros k Hk. apply fsize_le_length. rewrite forallb_forall in Hkids. apply Hkids, Hk. }
    pose proof (fsum_le kids Hf). lia.
Qed.
