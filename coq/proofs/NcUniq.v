(* C20: one dataset variable per file variable.  The NetCDF handler keys every variable by its fully qualified name
   (group path + name).  For every group tree as a NetCDF file can hold it (names without a slash, variable names unique within
   their group, sub-group names unique within their group) these keys are pairwise distinct, and there are as many as the file
   has variables: no variable is dropped, overwritten or invented, whatever the nesting depth and whatever names are reused in
   different groups. *)
From PydapV Require Import Base Quote DMR DMRProofs NcScope.
From Coq Require Import Lia.
Open Scope nat_scope.

Lemma grp_ind2 (P : grp -> Prop) :
  (forall n d v subs, Forall P subs -> P (Grp n d v subs)) -> forall g, P g.
Proof.
  intros H. fix IH 1. intros [n d v subs]. apply H.
  induction subs as [|s subs IHs]; constructor; [apply IH|exact IHs].
Qed.

(* what a NetCDF file guarantees about names *)
Fixpoint wf_grp (g : grp) : Prop :=
  match g with
  | Grp n _ vars subs =>
      no_slash n = true /\
      Forall (fun v => no_slash (fst v) = true) vars /\
      NoDup (map fst vars) /\
      NoDup (map g_name subs) /\
      (fix all (l : list grp) : Prop := match l with [] => True | s :: r => wf_grp s /\ all r end) subs
  end.

Lemma wf_grp_subs n d v subs : wf_grp (Grp n d v subs) -> Forall wf_grp subs.
Proof.
  intros (_ & _ & _ & _ & H). induction subs as [|s r IH]; constructor; [apply H|apply IH, H].
Qed.

(* the variables of the file, and their keys as component lists *)
Fixpoint file_vars (g : grp) : list (chars * list chars) :=
  match g with Grp _ _ vars subs => vars ++ flat_map file_vars subs end.

Fixpoint var_paths (p : list chars) (root : bool) (g : grp) : list (list chars) :=
  match g with
  | Grp n _ vars subs =>
      let p' := if root then [] else p ++ [n] in
      map (fun v => p' ++ [fst v]) vars ++ flat_map (var_paths p' false) subs
  end.

Definition is_nil {A} (l : list A) : bool := match l with [] => true | _ => false end.

Lemma path_text_app a b : path_text (a ++ b) = path_text a ++ path_text b.
Proof. unfold path_text. apply flat_map_app. Qed.

Lemma fq_path p v : fq p v = path_text (p ++ [v]).
Proof. unfold fq. rewrite path_text_app. cbn. now rewrite app_nil_r. Qed.

Lemma flat_map_ext_in' {X Y} (f g : X -> list Y) l : (forall x, In x l -> f x = g x) -> flat_map f l = flat_map g l.
Proof.
  induction l as [|x l IH]; intros H; [reflexivity|]. cbn [flat_map].
  rewrite (H x (or_introl eq_refl)), IH; [reflexivity|]. intros y Hy. apply H. now right.
Qed.

Lemma map_flat_map' {X Y Z} (f : Y -> Z) (g : X -> list Y) l : map f (flat_map g l) = flat_map (fun x => map f (g x)) l.
Proof. induction l as [|x l IH]; [reflexivity|]. cbn [flat_map]. now rewrite map_app, IH. Qed.

Lemma vars_of_keys g : forall p sc,
  map fst (vars_of p sc g) = map path_text (var_paths p (is_nil sc) g).
Proof.
  induction g as [n d v subs IH] using grp_ind2. intros p sc. cbn [vars_of var_paths].
  assert (Ep : match sc with [] => [] | _ => p ++ [n] end = if is_nil sc then [] else p ++ [n]) by (destruct sc; reflexivity).
  rewrite Ep. set (p' := if is_nil sc then [] else p ++ [n]).
  rewrite !map_app, !map_map, !map_flat_map'. f_equal.
  - apply map_ext. intros x. cbn [fst]. apply fq_path.
  - apply flat_map_ext_in'. intros s Hs. rewrite Forall_forall in IH. apply (IH s Hs p' ((p', d) :: sc)).
Qed.

Lemma vars_of_length g : forall p sc, List.length (vars_of p sc g) = List.length (file_vars g).
Proof.
  induction g as [n d v subs IH] using grp_ind2. intros p sc. cbn [vars_of file_vars].
  rewrite !app_length, map_length. f_equal.
  generalize (match sc with [] => [] | _ :: _ => p ++ [n] end) as p'. intros p'.
  generalize ((p', d) :: sc) as sc'. intros sc'.
  induction subs as [|s r IHr]; [reflexivity|]. inversion IH as [|? ? Hs Hr]; subst.
  cbn [flat_map]. rewrite !app_length, (Hs p' sc'), (IHr Hr). reflexivity.
Qed.

(* ---------------------------------------------------------------- splitting a path text is unique *)
Definition headed (r : chars) : Prop := r = [] \/ exists t, r = slash :: t.

Lemma split_unique a : forall a' r r',
  no_slash a = true -> no_slash a' = true -> headed r -> headed r' ->
  a ++ r = a' ++ r' -> a = a' /\ r = r'.
Proof.
  induction a as [|c a IH]; intros [|c' a'] r r' Ha Ha' Hr Hr' E; cbn [app] in E.
  - split; [reflexivity|exact E].
  - exfalso. destruct Hr as [->|(t & ->)]; [discriminate|]. injection E as Ec _. subst c'.
    cbn in Ha'. try rewrite Ascii.eqb_refl in Ha'. discriminate.
  - exfalso. destruct Hr' as [->|(t & ->)]; [discriminate|]. injection E as Ec _. subst c.
    cbn in Ha. try rewrite Ascii.eqb_refl in Ha. discriminate.
  - injection E as -> E. cbn in Ha, Ha'. apply andb_true_iff in Ha as [_ Ha]. apply andb_true_iff in Ha' as [_ Ha'].
    destruct (IH a' r r' Ha Ha' Hr Hr' E) as [-> ->]. split; reflexivity.
Qed.

Lemma path_text_headed l : headed (path_text l).
Proof. destruct l as [|a l]; [left; reflexivity|right; eexists; reflexivity]. Qed.

Lemma path_text_inj l : forall l',
  Forall (fun x => no_slash x = true) l -> Forall (fun x => no_slash x = true) l' ->
  path_text l = path_text l' -> l = l'.
Proof.
  induction l as [|a l IH]; intros [|a' l'] Hl Hl' E; [reflexivity|discriminate|discriminate|].
  inversion Hl as [|? ? Ha Hl2]; inversion Hl' as [|? ? Ha' Hl2']; subst.
  cbn in E. injection E as E.
  destruct (split_unique a a' _ _ Ha Ha' (path_text_headed l) (path_text_headed l') E) as [-> E2].
  f_equal. apply IH; assumption.
Qed.

(* ---------------------------------------------------------------- NoDup helpers *)
Lemma NoDup_app_intro {A} (a b : list A) :
  NoDup a -> NoDup b -> (forall x, In x a -> In x b -> False) -> NoDup (a ++ b).
Proof.
  induction a as [|x a IH]; intros Ha Hb Hd; [exact Hb|]. inversion Ha as [|? ? Hx Ha2]; subst.
  cbn [app]. constructor.
  - rewrite in_app_iff. intros [H|H]; [exact (Hx H)|exact (Hd x (or_introl eq_refl) H)].
  - apply IH; [exact Ha2|exact Hb|]. intros y Hy. apply Hd. now right.
Qed.

Lemma NoDup_map_inj_in {A B} (f : A -> B) l :
  (forall x y, In x l -> In y l -> f x = f y -> x = y) -> NoDup l -> NoDup (map f l).
Proof.
  induction l as [|x l IH]; intros Hinj Hn; [constructor|]. inversion Hn as [|? ? Hx Hn2]; subst.
  cbn [map]. constructor.
  - rewrite in_map_iff. intros (y & Ey & Hy). apply Hx.
    rewrite (Hinj x y (or_introl eq_refl) (or_intror Hy) (eq_sym Ey)). exact Hy.
  - apply IH; [|exact Hn2]. intros a b Ha Hb. apply Hinj; now right.
Qed.

(* ---------------------------------------------------------------- keys of a well-formed tree *)
Definition slashfree (l : list chars) : Prop := Forall (fun x => no_slash x = true) l.

(* every key of the group at path p' extends p' by at least one slash-free component *)
Lemma var_paths_shape g : forall p root,
  wf_grp g -> slashfree p ->
  forall q, In q (var_paths p root g) ->
    exists t, q = (if root then [] else p ++ [g_name g]) ++ t /\ t <> [] /\ slashfree q.
Proof.
  induction g as [n d v subs IH] using grp_ind2. intros p root Hw Hp q Hq.
  pose proof (wf_grp_subs _ _ _ _ Hw) as Hsubs. destruct Hw as (Hn & Hv & _ & _ & _).
  cbn [var_paths g_name] in *. set (p' := if root then [] else p ++ [n]) in *.
  assert (Hp' : slashfree p').
  { subst p'. destruct root; [constructor|]. apply Forall_app. split; [exact Hp|]. constructor; [exact Hn|constructor]. }
  apply in_app_iff in Hq as [Hq|Hq].
  - apply in_map_iff in Hq as (x & <- & Hx). exists [fst x]. split; [reflexivity|]. split; [discriminate|].
    apply Forall_app. split; [exact Hp'|]. constructor; [|constructor]. rewrite Forall_forall in Hv. exact (Hv x Hx).
  - apply in_flat_map in Hq as (s & Hs & Hq). rewrite Forall_forall in IH, Hsubs.
    destruct (IH s Hs p' false (Hsubs s Hs) Hp' q Hq) as (t & -> & Ht & Hsf).
    exists ([g_name s] ++ t). split; [now rewrite <- app_assoc|]. split; [discriminate|exact Hsf].
Qed.

Lemma var_paths_nodup g : forall p root, wf_grp g -> slashfree p -> NoDup (var_paths p root g).
Proof.
  induction g as [n d v subs IH] using grp_ind2. intros p root Hw Hp.
  pose proof (wf_grp_subs _ _ _ _ Hw) as Hsubs. destruct Hw as (Hn & Hv & Hvn & Hsn & _).
  cbn [var_paths]. set (p' := if root then [] else p ++ [n]).
  assert (Hp' : slashfree p').
  { subst p'. destruct root; [constructor|]. apply Forall_app. split; [exact Hp|]. constructor; [exact Hn|constructor]. }
  apply NoDup_app_intro.
  - (* the group's own variables *)
    rewrite <- (map_map fst (fun x => p' ++ [x])). apply NoDup_map_inj_in; [|exact Hvn].
    intros x y _ _ E. apply app_inv_head in E. now injection E.
  - (* the sub-groups: distinct names give distinct prefixes *)
    clear Hv Hvn. induction subs as [|s r IHr]; [constructor|]. cbn [flat_map].
    inversion IH as [|? ? IHs IHrest]; inversion Hsubs as [|? ? Hws Hwr]; subst.
    cbn [map] in Hsn. inversion Hsn as [|? ? Hs1 Hs2]; subst.
    apply NoDup_app_intro; [apply IHs; assumption|apply IHr; assumption|].
    intros q Hq1 Hq2. apply in_flat_map in Hq2 as (s' & Hs' & Hq2).
    destruct (var_paths_shape s p' false Hws Hp' q Hq1) as (t & E1 & _ & _).
    rewrite Forall_forall in Hwr.
    destruct (var_paths_shape s' p' false (Hwr s' Hs') Hp' q Hq2) as (t' & E2 & _ & _).
    rewrite E1 in E2. rewrite <- !app_assoc in E2. apply app_inv_head in E2. cbn [app] in E2. injection E2 as E2 _.
    apply Hs1. rewrite E2. apply in_map. exact Hs'.
  - (* a variable of the group itself is not a variable of a sub-group: its key is one component shorter *)
    intros q Hq1 Hq2. apply in_map_iff in Hq1 as (x & <- & _).
    apply in_flat_map in Hq2 as (s & Hs & Hq2). rewrite Forall_forall in Hsubs.
    destruct (var_paths_shape s p' false (Hsubs s Hs) Hp' _ Hq2) as (t & E & Ht & _).
    rewrite <- app_assoc in E. apply app_inv_head in E. cbn [app] in E. injection E as _ E. apply Ht. now rewrite <- E.
Qed.

Theorem vars_unique g : wf_grp g ->
  NoDup (map fst (vars_of [] [] g)) /\ List.length (vars_of [] [] g) = List.length (file_vars g).
Proof.
  intros Hw. split; [|apply vars_of_length].
  rewrite vars_of_keys. cbn [is_nil].
  apply NoDup_map_inj_in; [|apply var_paths_nodup; [exact Hw|constructor]].
  intros x y Hx Hy E.
  destruct (var_paths_shape g [] true Hw (Forall_nil _) x Hx) as (_ & _ & _ & Sx).
  destruct (var_paths_shape g [] true Hw (Forall_nil _) y Hy) as (_ & _ & _ & Sy).
  apply path_text_inj; assumption.
Qed.

(* ---------------------------------------------------------------- the dimension names refer to declarations of the file *)
(* the variables with, for every axis, the fully qualified dimension name the handler writes AND the extent NetCDF's scoping
   rule gives that axis (the size of the nearest enclosing declaration of the short name) *)
Lemma vars_sized_names g : forall p sc,
  map (fun v => (fst v, map fst (snd v))) (vars_sized p sc g) = vars_of p sc g.
Proof.
  induction g as [n d v subs IH] using grp_ind2. intros p sc. cbn [vars_sized vars_of].
  rewrite map_app, map_map, map_flat_map'. f_equal.
  - apply map_ext. intros x. cbn [fst snd]. now rewrite map_map.
  - apply flat_map_ext_in'. intros s Hs. rewrite Forall_forall in IH. apply (IH s Hs).
Qed.

Lemma aget_some_in {V} k (v : V) l : aget k l = Some v -> In (k, v) l.
Proof.
  induction l as [|[k' v'] l IH]; [discriminate|]. cbn [aget]. destruct (ceq k k') eqn:E.
  - intros H. injection H as ->. apply ceq_eq in E. subst. now left.
  - intros H. right. exact (IH H).
Qed.

Lemma resolve_size_in sc : forall d n,
  resolve_size sc d = Some n -> exists p dims, In (p, dims) sc /\ aget d dims = Some n /\ resolve sc d = p.
Proof.
  induction sc as [|[p dims] rest IH]; intros d n H; [discriminate|]. cbn [resolve_size] in H.
  destruct (aget d dims) as [m|] eqn:E.
  - injection H as ->. exists p, dims. split; [now left|]. split; [exact E|].
    cbn [resolve]. destruct rest; [reflexivity|]. now rewrite E.
  - destruct (IH d n H) as (q & dd & Hin & Ha & Hr). exists q, dd. split; [now right|]. split; [exact Ha|].
    cbn [resolve]. destruct rest as [|x r]; [destruct Hin|]. now rewrite E.
Qed.

Lemma dims_declared_gen g : forall p sc (D : list (chars * nat)),
  (forall q dims, In (q, dims) sc -> forall d n, aget d dims = Some n -> In (fq q d, n) D) ->
  incl (decls_of p (is_nil sc) g) D ->
  forall v, In v (vars_sized p sc g) ->
    Forall (fun r => forall n, snd r = Some n -> In (fst r, n) D) (snd v).
Proof.
  induction g as [n dims vars subs IH] using grp_ind2. intros p sc D Hsc Hincl v Hv.
  cbn [vars_sized decls_of] in *.
  assert (Ep : match sc with [] => [] | _ => p ++ [n] end = if is_nil sc then [] else p ++ [n]) by (destruct sc; reflexivity).
  rewrite Ep in Hv. set (p' := if is_nil sc then [] else p ++ [n]) in *.
  assert (Hsc' : forall q dd, In (q, dd) ((p', dims) :: sc) -> forall d m, aget d dd = Some m -> In (fq q d, m) D).
  { intros q dd [E|Hin] d m Ha; [|exact (Hsc q dd Hin d m Ha)]. injection E as <- <-.
    apply Hincl. apply in_app_iff. left. apply aget_some_in in Ha.
    apply in_map_iff. exists (d, m). split; [reflexivity|exact Ha]. }
  apply in_app_iff in Hv as [Hv|Hv].
  - apply in_map_iff in Hv as (x & <- & _). cbn [snd]. apply Forall_forall. intros r Hr m Hm.
    apply in_map_iff in Hr as (d & <- & _). cbn [fst snd] in *.
    destruct (resolve_size_in _ _ _ Hm) as (q & dd & Hin & Ha & ->). exact (Hsc' q dd Hin d m Ha).
  - apply in_flat_map in Hv as (s & Hs & Hv). rewrite Forall_forall in IH.
    apply (IH s Hs p' ((p', dims) :: sc) D Hsc'); [|exact Hv].
    cbn [is_nil]. intros x Hx. apply Hincl. apply in_app_iff. right. apply in_flat_map. exists s. split; assumption.
Qed.

(* every fully qualified dimension name the handler writes names a declaration of the file, and the size of that declaration is
   the extent of the variable along that axis *)
Theorem dims_declared g : forall v, In v (vars_sized [] [] g) ->
  Forall (fun r => forall n, snd r = Some n -> In (fst r, n) (decls_of [] true g)) (snd v).
Proof.
  intros v Hv. apply (dims_declared_gen g [] [] (decls_of [] true g)); [intros q dims []|apply incl_refl|exact Hv].
Qed.
