(* C07: the DDS printer and parser are an inverse pair on every tree (no bound on depth, width, rank, name length). *)
From PydapV Require Import Base Quote QuoteProofs StrLemmas DDS.
From Coq Require Import Lia DecimalString DecimalZ DecimalPos.
Open Scope nat_scope.

(* ------------------------------------------------------------------ character classes (finite facts) *)
Lemma legal_dimchar c : legal c = is_dimchar c.
Proof. ascii_cases c; reflexivity. Qed.
Lemma verb_legal c : verb c = legal c.
Proof. ascii_cases c; reflexivity. Qed.
Lemma dimchar_nsb c : is_dimchar c = true -> not_semi_bracket c = true.
Proof. ascii_cases c; intros H; try reflexivity; discriminate H. Qed.
Lemma dimchar_ns c : is_dimchar c = true -> not_semi c = true.
Proof. ascii_cases c; intros H; try reflexivity; discriminate H. Qed.
Lemma dimchar_nospace c : is_dimchar c = true -> is_space c = false.
Proof. ascii_cases c; intros H; try reflexivity; discriminate H. Qed.
Lemma digit_dimchar c : is_digit c = true -> is_dimchar c = true.
Proof. ascii_cases c; intros H; try reflexivity; discriminate H. Qed.

(* ------------------------------------------------------------------ names *)
Definition wf_name (n : chars) : Prop := n <> [] /\ forallb legal n = true.

Lemma forallb_skipn {A} (p : A -> bool) n l : forallb p l = true -> forallb p (skipn n l) = true.
Proof.
  revert l; induction n as [|n IH]; intros [|x l] H; cbn [skipn]; try assumption.
  cbn [forallb] in H. apply andb_true_iff in H as [_ H]. apply IH, H.
Qed.

Lemma quote_fix n : forallb legal n = true -> quote n = n.
Proof.
  intros H. assert (Hv : forallb verb n = true).
  { rewrite forallb_forall in *. intros c Hc. rewrite verb_legal. apply H, Hc. }
  unfold quote. destruct (prefixb (s2l "dap4") n).
  - rewrite quote_body_verbatim by (apply forallb_skipn, Hv). apply firstn_skipn.
  - apply quote_body_verbatim, Hv.
Qed.

Lemma quote_nonempty d : d <> [] -> quote d <> [].
Proof.
  intros Hd. destruct d as [|c d]; [congruence|]. unfold quote.
  destruct (prefixb (s2l "dap4") (c :: d)) eqn:E.
  - cbn [firstn]. discriminate.
  - rewrite quote_body_render. unfold render, mark. cbn [map flat_map fst snd].
    destruct (verb c); cbn [tok]; [discriminate|].
    destruct (pct_shape c) as (h1 & h2 & a & b & -> & _). discriminate.
Qed.

(* ------------------------------------------------------------------ tokens *)
Lemma span_stop p a c r : forallb p a = true -> p c = false -> span p (a ++ c :: r) = (a, c :: r).
Proof.
  intros Ha Hc. induction a as [|x a IH]; cbn [app span].
  - rewrite Hc. reflexivity.
  - cbn [forallb] in Ha. apply andb_true_iff in Ha as [Hx Ha]. rewrite Hx, (IH Ha). reflexivity.
Qed.

Lemma consume_class_stop p a c r :
  a <> [] -> forallb p a = true -> p c = false -> consume_class p (a ++ c :: r) = Some (a, lstrip (c :: r)).
Proof.
  intros Hn Ha Hc. unfold consume_class. rewrite span_stop by assumption.
  destruct a; [congruence|reflexivity].
Qed.

Lemma lstrip_indent k x : lstrip (indent k ++ x) = lstrip x.
Proof. unfold indent. induction (4 * k) as [|n IH]; [reflexivity|]. cbn [repeat app]. exact IH. Qed.

Lemma lstrip_keep c x : is_space c = false -> lstrip (c :: x) = c :: x.
Proof. intros H. cbn [lstrip]. rewrite H. reflexivity. Qed.

Lemma lstrip_name n x : wf_name n -> lstrip (n ++ x) = n ++ x.
Proof.
  intros [Hn Hl]. destruct n as [|c n]; [congruence|]. cbn [app]. apply lstrip_keep.
  cbn [forallb] in Hl. apply andb_true_iff in Hl as [Hc _]. apply dimchar_nospace. rewrite <- legal_dimchar. exact Hc.
Qed.

Lemma forallb_impl {A} (p q : A -> bool) l : (forall x, p x = true -> q x = true) -> forallb p l = true -> forallb q l = true.
Proof. intros H. rewrite !forallb_forall. intros Hp x Hx. apply H, Hp, Hx. Qed.

Lemma name_dimchars n : forallb legal n = true -> forallb is_dimchar n = true.
Proof. apply forallb_impl. intros x. rewrite legal_dimchar. trivial. Qed.

(* ------------------------------------------------------------------ numbers *)
Lemma uint_digits d : forallb is_digit (s2l (NilEmpty.string_of_uint d)) = true.
Proof. induction d; cbn; try assumption; reflexivity. Qed.

Lemma dec_digits n : forallb is_digit (dec n) = true.
Proof.
  unfold dec, print_dec, NilZero.string_of_int, NilZero.string_of_uint.
  destruct (Z.of_nat n) eqn:E; cbn [Z.to_int].
  - reflexivity.
  - destruct (Pos.to_uint p) eqn:Ep; try apply uint_digits. reflexivity.
  - lia.
Qed.

Lemma dec_nonempty n : dec n <> [].
Proof.
  unfold dec, print_dec, NilZero.string_of_int, NilZero.string_of_uint.
  destruct (Z.of_nat n) eqn:E; cbn [Z.to_int]; [discriminate| |lia].
  destruct (Pos.to_uint p) eqn:Ep; cbn; discriminate.
Qed.

Lemma to_nat_dec_dec n : to_nat_dec (dec n) = Some n.
Proof.
  unfold to_nat_dec. rewrite dec_digits. unfold dec. rewrite l2s_s2l, parse_print_dec. cbn [option_map].
  rewrite Nat2Z.id. reflexivity.
Qed.

(* ------------------------------------------------------------------ dimensions *)
Definition pd := (option chars * nat)%type.
Definition render_pd (d : pd) : chars :=
  match d with (Some dn, n) => named_dim (dn, n) | (None, n) => anon_dim n end.
Definition pd_names (d : pd) : list chars := match fst d with Some n => [n] | None => [] end.
Definition wf_pd (d : pd) : Prop := match fst d with Some dn => wf_name dn | None => True end.

Definition pdims (seq : nat) (name : chars) (dims : list chars) (shape : list nat) : list pd :=
  let sh := skipn seq shape in
  if dims_cover dims sh then map (fun p => (Some (fst p), snd p)) (combine (map quote dims) sh)
  else match sh with [n] => [(Some name, n)] | _ => map (fun n => (None, n)) sh end.

Lemma flat_map_map {A B C} (g : A -> B) (f : B -> list C) l : flat_map f (map g l) = flat_map (fun x => f (g x)) l.
Proof. induction l as [|x l IH]; [reflexivity|]. cbn [map flat_map]. rewrite IH. reflexivity. Qed.

Lemma print_dims_pd seq name dims shape :
  print_dims seq name dims shape = flat_map render_pd (pdims seq name dims shape).
Proof.
  unfold print_dims, pdims. destruct (dims_cover dims (skipn seq shape)).
  - rewrite flat_map_map. apply flat_map_ext. intros [a b]. reflexivity.
  - destruct (skipn seq shape) as [|n [|m sh]].
    + reflexivity.
    + cbn [flat_map render_pd]. rewrite app_nil_r. reflexivity.
    + rewrite flat_map_map. reflexivity.
Qed.

Lemma peek_lit_cons a b X : peek_lit [a] (b :: X) = Ascii.eqb (lower a) (lower b).
Proof. unfold peek_lit. cbn [prefix_ci]. destruct (Ascii.eqb (lower a) (lower b)); reflexivity. Qed.
Lemma consume_lit_cons a b X :
  consume_lit [a] (b :: X) = if Ascii.eqb (lower a) (lower b) then Some (lstrip X) else None.
Proof. unfold consume_lit. cbn [prefix_ci]. destruct (Ascii.eqb (lower a) (lower b)); reflexivity. Qed.

Definition starts_delim (T : chars) : Prop := exists c T', T = c :: T' /\ (c = "["%char \/ c = ";"%char).
Lemma starts_delim_lstrip T : starts_delim T -> lstrip T = T.
Proof. intros (c & T' & -> & [-> | ->]); reflexivity. Qed.

Lemma dec_split n : exists c r, dec n = c :: r /\ is_digit c = true /\ forallb is_digit r = true.
Proof.
  pose proof (dec_digits n) as H. pose proof (dec_nonempty n) as Hn.
  destruct (dec n) as [|c r]; [congruence|]. cbn [forallb] in H. apply andb_true_iff in H as [H1 H2]. eauto.
Qed.

Lemma parse_dims_step f d T :
  wf_pd d -> starts_delim T ->
  parse_dims (S f) (render_pd d ++ T) =
  do r <- parse_dims f T; Some (snd d :: fst (fst r), pd_names d ++ snd (fst r), snd r).
Proof.
  intros Hw HT. pose proof (starts_delim_lstrip T HT) as HlT.
  destruct d as [[dn|] n]; unfold render_pd, pd_names, wf_pd in *; cbn [fst snd] in *.
  - (* [dn = n] *)
    unfold named_dim. cbn [fst snd app s2l list_ascii_of_string]. cbn [parse_dims].
    rewrite peek_lit_cons. change (Ascii.eqb (lower ";"%char) (lower "["%char)) with false. cbv iota.
    rewrite consume_lit_cons. change (Ascii.eqb (lower "["%char) (lower "["%char)) with true. cbv iota.
    cbn [obind]. rewrite <- app_assoc. rewrite (lstrip_name dn _ Hw).
    cbn [app]. rewrite (consume_class_stop is_dimchar dn " "%char); [|apply Hw|apply name_dimchars, Hw|reflexivity].
    cbn [obind fst snd].
    change (lstrip (" "%char :: "="%char :: " "%char :: (dec n ++ ["]"%char]) ++ T))
      with ("="%char :: " "%char :: (dec n ++ ["]"%char]) ++ T).
    rewrite peek_lit_cons. change (Ascii.eqb (lower "="%char) (lower "="%char)) with true. cbv iota.
    rewrite consume_lit_cons. change (Ascii.eqb (lower "="%char) (lower "="%char)) with true. cbv iota.
    cbn [obind].
    destruct (dec_split n) as (c & r & E & Hc & Hr).
    assert (Hl : lstrip (" "%char :: (dec n ++ ["]"%char]) ++ T) = dec n ++ "]"%char :: T).
    { rewrite <- app_assoc. cbn [app]. change (lstrip (" "%char :: dec n ++ "]"%char :: T)) with (lstrip (dec n ++ "]"%char :: T)).
      rewrite E. cbn [app]. apply lstrip_keep. apply dimchar_nospace, digit_dimchar, Hc. }
    rewrite Hl.
    rewrite (consume_class_stop is_digit (dec n) "]"%char); [|apply dec_nonempty|apply dec_digits|reflexivity].
    cbn [obind fst snd]. rewrite to_nat_dec_dec. cbn [obind fst snd].
    change (lstrip ("]"%char :: T)) with ("]"%char :: T).
    rewrite consume_lit_cons. change (Ascii.eqb (lower "]"%char) (lower "]"%char)) with true. cbv iota.
    cbn [obind]. rewrite HlT. reflexivity.
  - (* [n] *)
    unfold anon_dim. cbn [app]. cbn [parse_dims].
    rewrite peek_lit_cons. change (Ascii.eqb (lower ";"%char) (lower "["%char)) with false. cbv iota.
    rewrite consume_lit_cons. change (Ascii.eqb (lower "["%char) (lower "["%char)) with true. cbv iota.
    cbn [obind].
    destruct (dec_split n) as (c & r & E & Hc & Hr).
    assert (Hl : lstrip ((dec n ++ ["]"%char]) ++ T) = dec n ++ "]"%char :: T).
    { rewrite <- app_assoc. cbn [app]. rewrite E. cbn [app]. apply lstrip_keep. apply dimchar_nospace, digit_dimchar, Hc. }
    rewrite Hl.
    rewrite (consume_class_stop is_dimchar (dec n) "]"%char);
      [|apply dec_nonempty|apply (forallb_impl is_digit), dec_digits; apply digit_dimchar|reflexivity].
    cbn [obind fst snd].
    change (lstrip ("]"%char :: T)) with ("]"%char :: T).
    rewrite peek_lit_cons. change (Ascii.eqb (lower "="%char) (lower "]"%char)) with false. cbv iota.
    rewrite to_nat_dec_dec. cbn [obind fst snd].
    rewrite consume_lit_cons. change (Ascii.eqb (lower "]"%char) (lower "]"%char)) with true. cbv iota.
    cbn [obind]. rewrite HlT. reflexivity.
Qed.

Lemma parse_dims_pd pds : forall f R,
  Forall wf_pd pds -> List.length pds < f ->
  parse_dims f (flat_map render_pd pds ++ ";"%char :: R) =
  Some (map snd pds, flat_map pd_names pds, ";"%char :: R).
Proof.
  induction pds as [|d pds IH]; intros f R Hw Hf.
  - destruct f as [|f]; [cbn in Hf; lia|]. cbn [flat_map app parse_dims map].
    rewrite peek_lit_cons. reflexivity.
  - destruct f as [|f]; [cbn in Hf; lia|]. inversion Hw as [|? ? Hd Hr]; subst.
    cbn [flat_map]. rewrite <- app_assoc. rewrite parse_dims_step; [|exact Hd|].
    + rewrite IH; [|exact Hr|cbn in Hf; lia]. reflexivity.
    + destruct pds as [|[[dn|] n] pds]; cbn [flat_map app render_pd]; unfold named_dim, anon_dim; cbn [app];
        eexists _, _; split; try reflexivity; auto.
Qed.

(* ------------------------------------------------------------------ well-formed trees, declared trees, sizes *)
Definition wf_nameb (n : chars) : bool := negb (match n with [] => true | _ => false end) && forallb legal n.
Definition wf_dimb (d : chars) : bool := negb (match d with [] => true | _ => false end) && forallb legal (quote d).
Definition is_base (t : dtree) : bool := match t with TBase _ _ _ _ => true | _ => false end.

Fixpoint wfb (t : dtree) : bool :=
  match t with
  | TBase _ n dims _ => wf_nameb n && forallb wf_dimb dims
  | TStruct n ks => wf_nameb n && forallb wfb ks
  | TSeq n ks => wf_nameb n && forallb wfb ks
  | TGrid n a ms => wf_nameb n && is_base a && wfb a && forallb is_base ms && forallb wfb ms
  end.

Lemma wf_nameb_spec n : wf_nameb n = true -> wf_name n.
Proof. unfold wf_nameb, wf_name. intros H. apply andb_true_iff in H as [H1 H2]. split; [|exact H2]. destruct n; [discriminate|discriminate]. Qed.


(* what the DDS text says about a tree: the declaration the parser must return *)
Fixpoint declared (seq : nat) (t : dtree) : dtree :=
  match t with
  | TBase ty n dims shape =>
      let p := pdims seq n dims shape in TBase ty n (flat_map pd_names p) (map snd p)
  | TStruct n ks => TStruct n (map (declared seq) ks)
  | TSeq n ks => TSeq n (map (declared (S seq)) ks)
  | TGrid n a ms => TGrid n (declared seq a) (map (declared seq) ms)
  end.

Fixpoint size (seq : nat) (t : dtree) : nat :=
  match t with
  | TBase _ n dims shape => 2 + List.length (pdims seq n dims shape)
  | TStruct _ ks => 2 + List.length ks + list_sum (map (size seq) ks)
  | TSeq _ ks => 2 + List.length ks + list_sum (map (size (S seq)) ks)
  | TGrid _ a ms => 2 + size seq a + List.length ms + list_sum (map (size seq) ms)
  end.

Section Ind.
  Variable P : dtree -> Prop.
  Hypothesis Hb : forall ty n d s, P (TBase ty n d s).
  Hypothesis Hs : forall n ks, Forall P ks -> P (TStruct n ks).
  Hypothesis Hq : forall n ks, Forall P ks -> P (TSeq n ks).
  Hypothesis Hg : forall n a ms, P a -> Forall P ms -> P (TGrid n a ms).
  Fixpoint dtree_ind2 (t : dtree) : P t :=
    let go := (fix go (l : list dtree) : Forall P l :=
                 match l with [] => Forall_nil _ | x :: r => Forall_cons _ (dtree_ind2 x) (go r) end) in
    match t with
    | TBase ty n d s => Hb ty n d s
    | TStruct n ks => Hs n ks (go ks)
    | TSeq n ks => Hq n ks (go ks)
    | TGrid n a ms => Hg n a ms (dtree_ind2 a) (go ms)
    end.
End Ind.

Lemma wf_pdims seq n dims shape :
  wf_nameb n = true -> forallb wf_dimb dims = true -> Forall wf_pd (pdims seq n dims shape).
Proof.
  intros Hn Hd. unfold pdims. destruct (dims_cover dims (skipn seq shape)).
  - apply Forall_forall. intros x Hx. apply in_map_iff in Hx as ([a b] & <- & Hin).
    apply in_combine_l in Hin. apply in_map_iff in Hin as (d & <- & Hdin).
    rewrite forallb_forall in Hd. specialize (Hd d Hdin). unfold wf_dimb in Hd.
    apply andb_true_iff in Hd as [H1 H2]. unfold wf_pd. cbn [fst]. split; [|exact H2].
    apply quote_nonempty. destruct d; [discriminate|discriminate].
  - destruct (skipn seq shape) as [|m [|m' sh]].
    + constructor.
    + constructor; [|constructor]. apply wf_nameb_spec, Hn.
    + apply Forall_forall. intros x Hx. apply in_map_iff in Hx as (y & <- & _). exact I.
Qed.

(* ------------------------------------------------------------------ one base declaration *)
Lemma lstrip_type ty X : lstrip (type_name ty ++ X) = type_name ty ++ X.
Proof. destruct ty; reflexivity. Qed.
Lemma consume_type ty X : consume_class is_word (type_name ty ++ sp :: X) = Some (type_name ty, lstrip X).
Proof. destruct ty; reflexivity. Qed.
Lemma type_of_name ty : type_of (type_name ty) = Some ty.
Proof. destruct ty; reflexivity. Qed.

Lemma base_text lvl seq ty n dims shape rest :
  print_decl lvl seq (TBase ty n dims shape) ++ rest =
  indent lvl ++ type_name ty ++ sp :: n ++ flat_map render_pd (pdims seq n dims shape) ++ ";"%char :: nl :: rest.
Proof. cbn [print_decl]. rewrite print_dims_pd. rewrite <- !app_assoc. cbn [app]. rewrite <- !app_assoc. reflexivity. Qed.

Lemma pds_head pds R : exists c T', flat_map render_pd pds ++ ";"%char :: R = c :: T' /\ (c = "["%char \/ c = ";"%char).
Proof.
  destruct pds as [|[[dn|] m] pds]; cbn [flat_map app render_pd]; unfold named_dim, anon_dim; cbn [app];
    eexists _, _; split; try reflexivity; auto.
Qed.

Lemma parse_base_print lvl seq ty n dims shape f rest :
  wfb (TBase ty n dims shape) = true -> List.length (pdims seq n dims shape) < f ->
  parse_base f (lstrip (print_decl lvl seq (TBase ty n dims shape) ++ rest)) =
  Some (declared seq (TBase ty n dims shape), lstrip rest).
Proof.
  intros Hw Hf. cbn [wfb] in Hw. apply andb_true_iff in Hw as [Hn Hd].
  pose proof (wf_nameb_spec n Hn) as Hwn.
  rewrite base_text, lstrip_indent, lstrip_type. unfold parse_base.
  rewrite consume_type. cbn [obind fst snd]. rewrite type_of_name. cbn [obind].
  rewrite (lstrip_name n _ Hwn).
  destruct (pds_head (pdims seq n dims shape) (nl :: rest)) as (c & T' & E & Hc).
  rewrite E.
  rewrite (consume_class_stop not_semi_bracket n c T');
    [|apply Hwn|apply (forallb_impl is_dimchar); [apply dimchar_nsb|apply name_dimchars, Hwn]|destruct Hc as [-> | ->]; reflexivity].
  cbn [obind fst snd].
  assert (Hl : lstrip (c :: T') = c :: T') by (destruct Hc as [-> | ->]; reflexivity).
  rewrite Hl, <- E.
  rewrite parse_dims_pd; [|apply wf_pdims; assumption|exact Hf].
  cbn [obind fst snd]. rewrite consume_lit_cons. change (Ascii.eqb (lower ";"%char) (lower ";"%char)) with true. cbv iota.
  cbn [obind]. change (lstrip (nl :: rest)) with (lstrip rest).
  cbn [declared]. rewrite (quote_fix n) by apply Hwn. reflexivity.
Qed.

(* ------------------------------------------------------------------ containers *)
Lemma until_brace_print (p : chars -> option (dtree * chars)) (pr : dtree -> chars) (d : dtree -> dtree) ks :
  forall n T,
  (forall k r, In k ks -> p (lstrip (pr k ++ r)) = Some (d k, lstrip r)) ->
  (forall k r, In k ks -> peek_lit ["}"%char] (lstrip (pr k ++ r)) = false) ->
  peek_lit ["}"%char] (lstrip T) = true -> List.length ks < n ->
  until_brace p n (lstrip (flat_map pr ks ++ T)) = Some (map d ks, lstrip T).
Proof.
  induction ks as [|k ks IH]; intros n T Hp Hk HT Hn.
  - destruct n as [|n]; [cbn in Hn; lia|]. cbn [flat_map app until_brace map]. rewrite HT. reflexivity.
  - destruct n as [|n]; [cbn in Hn; lia|]. cbn [flat_map]. rewrite <- app_assoc. cbn [until_brace].
    rewrite Hk by (left; reflexivity). rewrite Hp by (left; reflexivity). cbn [obind fst snd].
    rewrite IH; [reflexivity| | |exact HT|cbn in Hn; lia].
    + intros k' r Hin. apply Hp. right. exact Hin.
    + intros k' r Hin. apply Hk. right. exact Hin.
Qed.

Lemma tail_text lvl n rest :
  wf_name n ->
  parse_tail (lstrip (indent lvl ++ "}"%char :: sp :: n ++ ";"%char :: nl :: rest)) = Some (n, lstrip rest).
Proof.
  intros Hn. rewrite lstrip_indent. change (lstrip ("}"%char :: sp :: n ++ ";"%char :: nl :: rest)) with ("}"%char :: sp :: n ++ ";"%char :: nl :: rest).
  unfold parse_tail. rewrite consume_lit_cons. change (Ascii.eqb (lower "}"%char) (lower "}"%char)) with true. cbv iota.
  cbn [obind]. change (lstrip (sp :: n ++ ";"%char :: nl :: rest)) with (lstrip (n ++ ";"%char :: nl :: rest)).
  rewrite (lstrip_name n _ Hn).
  rewrite (consume_class_stop not_semi n ";"%char);
    [|apply Hn|apply (forallb_impl is_dimchar); [apply dimchar_ns|apply name_dimchars, Hn]|reflexivity].
  cbn [obind fst snd]. change (lstrip (";"%char :: nl :: rest)) with (";"%char :: nl :: rest).
  rewrite consume_lit_cons. change (Ascii.eqb (lower ";"%char) (lower ";"%char)) with true. cbv iota.
  cbn [obind]. change (lstrip (nl :: rest)) with (lstrip rest). rewrite (quote_fix n) by apply Hn. reflexivity.
Qed.

Lemma tail_peek lvl n rest : peek_lit ["}"%char] (lstrip (indent lvl ++ "}"%char :: sp :: n ++ rest)) = true.
Proof. rewrite lstrip_indent. reflexivity. Qed.

(* the dispatch of declaration() on the printed headers *)
Lemma decl_struct f X :
  parse_decl (S f) (s2l "Structure {" ++ nl :: X) =
  do ks <- until_brace (parse_decl f) f (lstrip X); do t <- parse_tail (snd ks); Some (TStruct (fst t) (fst ks), snd t).
Proof. reflexivity. Qed.
Lemma decl_seq f X :
  parse_decl (S f) (s2l "Sequence {" ++ nl :: X) =
  do ks <- until_brace (parse_decl f) f (lstrip X); do t <- parse_tail (snd ks); Some (TSeq (fst t) (fst ks), snd t).
Proof. reflexivity. Qed.
Lemma decl_grid f X :
  parse_decl (S f) (s2l "Grid {" ++ nl :: X) =
  do s3 <- consume_lit (s2l "array") (lstrip X);
  do s4 <- consume_lit [":"%char] s3;
  do a <- parse_base f s4;
  do s5 <- consume_lit (s2l "maps") (snd a);
  do s6 <- consume_lit [":"%char] s5;
  do ms <- until_brace (parse_base f) f s6;
  do t <- parse_tail (snd ms);
  Some (TGrid (fst t) (fst a) (fst ms), snd t).
Proof. reflexivity. Qed.
Lemma decl_base f ty X : parse_decl (S f) (type_name ty ++ sp :: X) = parse_base f (type_name ty ++ sp :: X).
Proof. destruct ty; reflexivity. Qed.
Lemma grid_array {B} X (K : chars -> option B) :
  obind (consume_lit (s2l "array") (s2l "Array:" ++ nl :: X)) (fun s3 => obind (consume_lit [":"%char] s3) K) = K (lstrip X).
Proof. reflexivity. Qed.
Lemma grid_maps {B} X (K : chars -> option B) :
  obind (consume_lit (s2l "maps") (s2l "Maps:" ++ nl :: X)) (fun s3 => obind (consume_lit [":"%char] s3) K) = K (lstrip X).
Proof. reflexivity. Qed.

Lemma decl_head_not_brace lvl seq t r : peek_lit ["}"%char] (lstrip (print_decl lvl seq t ++ r)) = false.
Proof.
  destruct t as [ty n d s|n ks|n ks|n a ms]; cbn [print_decl]; rewrite <- app_assoc, lstrip_indent.
  - destruct ty; reflexivity.
  - reflexivity.
  - reflexivity.
  - reflexivity.
Qed.

(* ------------------------------------------------------------------ the inverse pair *)
Lemma in_sum_le (f : dtree -> nat) k ks : In k ks -> f k <= list_sum (map f ks).
Proof.
  induction ks as [|x ks IH]; intros H; [destruct H|]. cbn [map list_sum fold_right]. destruct H as [-> | H]; [lia|].
  specialize (IH H). unfold list_sum in IH. lia.
Qed.

Lemma decl_is_base lvl seq ty n dims shape f rest :
  parse_decl (S f) (lstrip (print_decl lvl seq (TBase ty n dims shape) ++ rest)) =
  parse_base f (lstrip (print_decl lvl seq (TBase ty n dims shape) ++ rest)).
Proof. rewrite base_text, lstrip_indent, lstrip_type. apply decl_base. Qed.

Lemma struct_text lvl seq n ks rest :
  print_decl lvl seq (TStruct n ks) ++ rest =
  indent lvl ++ s2l "Structure {" ++ nl :: (flat_map (print_decl (S lvl) seq) ks ++
     (indent lvl ++ "}"%char :: sp :: n ++ ";"%char :: nl :: rest)).
Proof. cbn [print_decl]. rewrite <- !app_assoc. cbn [app]. rewrite <- !app_assoc. cbn [app]. rewrite <- !app_assoc. reflexivity. Qed.
Lemma seq_text lvl seq n ks rest :
  print_decl lvl seq (TSeq n ks) ++ rest =
  indent lvl ++ s2l "Sequence {" ++ nl :: (flat_map (print_decl (S lvl) (S seq)) ks ++
     (indent lvl ++ "}"%char :: sp :: n ++ ";"%char :: nl :: rest)).
Proof. cbn [print_decl]. rewrite <- !app_assoc. cbn [app]. rewrite <- !app_assoc. cbn [app]. rewrite <- !app_assoc. reflexivity. Qed.
Lemma grid_text lvl seq n a ms rest :
  print_decl lvl seq (TGrid n a ms) ++ rest =
  indent lvl ++ s2l "Grid {" ++ nl :: (indent (S lvl) ++ s2l "Array:" ++ nl :: (print_decl (S (S lvl)) seq a ++
     (indent (S lvl) ++ s2l "Maps:" ++ nl :: (flat_map (print_decl (S (S lvl)) seq) ms ++
     (indent lvl ++ "}"%char :: sp :: n ++ ";"%char :: nl :: rest))))).
Proof. cbn [print_decl]. rewrite <- !app_assoc. cbn [app]. rewrite <- !app_assoc. cbn [app]. rewrite <- !app_assoc. cbn [app].
  rewrite <- !app_assoc. cbn [app]. rewrite <- !app_assoc. reflexivity. Qed.

Lemma parse_decl_print t : forall lvl seq fuel rest,
  wfb t = true -> size seq t <= fuel ->
  parse_decl fuel (lstrip (print_decl lvl seq t ++ rest)) = Some (declared seq t, lstrip rest).
Proof.
  induction t as [ty n dims shape|n ks IH|n ks IH|n a ms IHa IHm] using dtree_ind2; intros lvl seq fuel rest Hw Hf.
  - destruct fuel as [|f]; [cbn in Hf; lia|]. rewrite decl_is_base. apply parse_base_print; [exact Hw|cbn [size] in Hf; lia].
  - destruct fuel as [|f]; [cbn in Hf; lia|]. cbn [wfb] in Hw. apply andb_true_iff in Hw as [Hn Hk].
    cbn [size] in Hf. rewrite struct_text, lstrip_indent.
    change (lstrip (s2l "Structure {" ++ ?X)) with (s2l "Structure {" ++ X).
    rewrite decl_struct.
    rewrite (until_brace_print (parse_decl f) (print_decl (S lvl) seq) (declared seq)).
    + cbn [obind fst snd]. rewrite tail_text by (apply wf_nameb_spec, Hn). reflexivity.
    + intros k r Hin. rewrite Forall_forall in IH. apply IH; [exact Hin| |].
      * rewrite forallb_forall in Hk. apply Hk, Hin.
      * pose proof (in_sum_le (size seq) k ks Hin). lia.
    + intros k r _. apply decl_head_not_brace.
    + apply tail_peek.
    + lia.
  - destruct fuel as [|f]; [cbn in Hf; lia|]. cbn [wfb] in Hw. apply andb_true_iff in Hw as [Hn Hk].
    cbn [size] in Hf. rewrite seq_text, lstrip_indent.
    change (lstrip (s2l "Sequence {" ++ ?X)) with (s2l "Sequence {" ++ X).
    rewrite decl_seq.
    rewrite (until_brace_print (parse_decl f) (print_decl (S lvl) (S seq)) (declared (S seq))).
    + cbn [obind fst snd]. rewrite tail_text by (apply wf_nameb_spec, Hn). reflexivity.
    + intros k r Hin. rewrite Forall_forall in IH. apply IH; [exact Hin| |].
      * rewrite forallb_forall in Hk. apply Hk, Hin.
      * pose proof (in_sum_le (size (S seq)) k ks Hin). lia.
    + intros k r _. apply decl_head_not_brace.
    + apply tail_peek.
    + lia.
  - destruct fuel as [|f]; [cbn in Hf; lia|]. cbn [wfb] in Hw.
    apply andb_true_iff in Hw as [Hw Hwm]. apply andb_true_iff in Hw as [Hw Hbm].
    apply andb_true_iff in Hw as [Hw Hwa]. apply andb_true_iff in Hw as [Hn Hba].
    cbn [size] in Hf. rewrite grid_text, lstrip_indent.
    change (lstrip (s2l "Grid {" ++ ?X)) with (s2l "Grid {" ++ X).
    rewrite decl_grid. rewrite lstrip_indent.
    change (lstrip (s2l "Array:" ++ ?X)) with (s2l "Array:" ++ X).
    rewrite grid_array. cbv beta.
    destruct a as [ty an ad ash| | |]; try discriminate Hba.
    rewrite parse_base_print; [|exact Hwa|cbn [size] in Hf; lia].
    cbn [obind fst snd]. rewrite lstrip_indent.
    change (lstrip (s2l "Maps:" ++ ?X)) with (s2l "Maps:" ++ X).
    rewrite grid_maps. cbv beta.
    rewrite (until_brace_print (parse_base f) (print_decl (S (S lvl)) seq) (declared seq)).
    + cbn [obind fst snd]. rewrite tail_text by (apply wf_nameb_spec, Hn). reflexivity.
    + intros k r Hin. rewrite forallb_forall in Hbm, Hwm. specialize (Hbm k Hin). specialize (Hwm k Hin).
      destruct k as [kty kn kd ksh| | |]; try discriminate Hbm.
      apply parse_base_print; [exact Hwm|].
      pose proof (in_sum_le (size seq) _ ms Hin) as Hle. cbn [size] in Hle. lia.
    + intros k r _. apply decl_head_not_brace.
    + apply tail_peek.
    + lia.
Qed.

(* ------------------------------------------------------------------ the text is long enough to serve as fuel *)
Lemma type_name_len ty : 4 <= List.length (type_name ty).
Proof. destruct ty; cbn; lia. Qed.

Lemma pds_len pds : List.length pds <= List.length (flat_map render_pd pds).
Proof.
  induction pds as [|[[dn|] m] pds IH]; [cbn; lia| |]; cbn [flat_map render_pd]; unfold named_dim, anon_dim;
    rewrite app_length; cbn [List.length]; lia.
Qed.

Lemma sum_le (sz : dtree -> nat) (pr : dtree -> chars) ks :
  Forall (fun k => sz k + 1 <= List.length (pr k)) ks ->
  List.length ks + list_sum (map sz ks) <= List.length (flat_map pr ks).
Proof.
  induction 1 as [|k ks Hk _ IH]; [cbn; lia|]. cbn [flat_map map list_sum fold_right List.length].
  rewrite app_length. unfold list_sum in IH. lia.
Qed.

Lemma size_le_length t : forall lvl seq, size seq t + 1 <= List.length (print_decl lvl seq t).
Proof.
  induction t as [ty n dims shape|n ks IH|n ks IH|n a ms IHa IHm] using dtree_ind2; intros lvl seq.
  - cbn [size print_decl]. rewrite print_dims_pd. rewrite !app_length. cbn [List.length]. rewrite !app_length. cbn [List.length].
    pose proof (type_name_len ty). pose proof (pds_len (pdims seq n dims shape)). lia.
  - cbn [size print_decl]. rewrite !app_length. cbn [List.length]. rewrite !app_length. cbn [List.length].
    pose proof (sum_le (size seq) (print_decl (S lvl) seq) ks) as H. 
    assert (Hf : Forall (fun k => size seq k + 1 <= List.length (print_decl (S lvl) seq k)) ks).
    { apply Forall_forall. intros k Hk. rewrite Forall_forall in IH. apply IH, Hk. }
    specialize (H Hf). lia.
  - cbn [size print_decl]. rewrite !app_length. cbn [List.length]. rewrite !app_length. cbn [List.length].
    pose proof (sum_le (size (S seq)) (print_decl (S lvl) (S seq)) ks) as H.
    assert (Hf : Forall (fun k => size (S seq) k + 1 <= List.length (print_decl (S lvl) (S seq) k)) ks).
    { apply Forall_forall. intros k Hk. rewrite Forall_forall in IH. apply IH, Hk. }
    specialize (H Hf). lia.
  - cbn [size print_decl]. rewrite !app_length. cbn [List.length]. rewrite !app_length. cbn [List.length].
    rewrite !app_length. cbn [List.length]. rewrite !app_length. cbn [List.length].
    pose proof (sum_le (size seq) (print_decl (S (S lvl)) seq) ms) as H.
    assert (Hf : Forall (fun k => size seq k + 1 <= List.length (print_decl (S (S lvl)) seq k)) ms).
    { apply Forall_forall. intros k Hk. rewrite Forall_forall in IHm. apply IHm, Hk. }
    specialize (H Hf). specialize (IHa (S (S lvl)) seq). lia.
Qed.

(* ------------------------------------------------------------------ whole dataset *)
Theorem parse_print_dataset_fuel name kids fuel :
  wf_nameb name = true -> forallb wfb kids = true ->
  1 + List.length kids + list_sum (map (size 0) kids) <= fuel ->
  parse_dataset_fuel fuel (print_dataset name kids) = Some (name, map (declared 0) kids).
Proof.
  intros Hn Hk Hf. unfold parse_dataset_fuel, print_dataset.
  change (consume_lit (s2l "dataset") (s2l "Dataset {" ++ ?X)) with (Some (s2l "{" ++ X)).
  cbn [obind]. change (consume_lit ["{"%char] (s2l "{" ++ nl :: ?X)) with (Some (lstrip X)). cbn [obind].
  assert (E : forall rest, "}"%char :: sp :: name ++ ";"%char :: nl :: rest = indent 0 ++ "}"%char :: sp :: name ++ ";"%char :: nl :: rest)
    by reflexivity.
  change ([";"%char; nl]) with (";"%char :: nl :: []). rewrite E.
  rewrite (until_brace_print (parse_decl fuel) (print_decl 1 0) (declared 0)).
  - cbn [obind fst snd]. rewrite tail_text by (apply wf_nameb_spec, Hn). reflexivity.
  - intros k r Hin. apply parse_decl_print.
    + rewrite forallb_forall in Hk. apply Hk, Hin.
    + pose proof (in_sum_le (size 0) k kids Hin). lia.
  - intros k r _. apply decl_head_not_brace.
  - apply tail_peek.
  - lia.
Qed.

Theorem parse_print_dataset name kids :
  wf_nameb name = true -> forallb wfb kids = true ->
  parse_dataset (print_dataset name kids) = Some (name, map (declared 0) kids).
Proof.
  intros Hn Hk. unfold parse_dataset. apply parse_print_dataset_fuel; try assumption.
  unfold print_dataset. rewrite !app_length. cbn [List.length]. rewrite !app_length. cbn [List.length].
  pose proof (sum_le (size 0) (print_decl 1 0) kids) as H.
  assert (Hf : Forall (fun k => size 0 k + 1 <= List.length (print_decl 1 0 k)) kids).
  { apply Forall_forall. intros k _. apply size_le_length. }
  specialize (H Hf). lia.
Qed.

(* ------------------------------------------------------------------ print . parse . print = print *)
Fixpoint flatb (seq : nat) (t : dtree) : bool :=
  match t with
  | TBase _ _ _ shape => Nat.eqb seq 0 || Nat.leb (List.length shape) seq
  | TStruct _ ks => forallb (flatb seq) ks
  | TSeq _ ks => forallb (flatb (S seq)) ks
  | TGrid _ a ms => flatb seq a && forallb (flatb seq) ms
  end.

Lemma combine_fst_snd {A B} (z : list (A * B)) : combine (map fst z) (map snd z) = z.
Proof. induction z as [|[a b] z IH]; [reflexivity|]. cbn [map combine fst snd]. rewrite IH. reflexivity. Qed.

Lemma type_name_norm ty : type_name ty = type_name ty.
Proof. destruct ty; reflexivity. Qed.

Lemma skipn_short {A} n (l : list A) : List.length l <= n -> skipn n l = [].
Proof. revert l; induction n as [|n IH]; intros [|x l] H; cbn in *; try reflexivity; try lia. apply IH. lia. Qed.

Lemma pd_names_anon (l : list nat) : flat_map pd_names (map (fun n0 : nat => (@None chars, n0)) l) = [].
Proof. induction l as [|x l IH]; [reflexivity|]. cbn [map flat_map pd_names fst app]. exact IH. Qed.

Lemma pd_names_named (z : list (chars * nat)) :
  flat_map pd_names (map (fun p : chars * nat => (Some (fst p), snd p)) z) = map fst z.
Proof. induction z as [|[a b] z IH]; [reflexivity|]. cbn [map flat_map pd_names fst snd app]. rewrite IH. reflexivity. Qed.

Lemma dims_cover_spec dims sh : dims_cover dims sh = true <-> dims <> [] /\ List.length dims = List.length sh.
Proof.
  unfold dims_cover. destruct dims as [|d0 dims].
  - split; [discriminate|intros [H _]; congruence].
  - rewrite Nat.eqb_eq. split; [intros H; split; [discriminate|exact H]|intros [_ H]; exact H].
Qed.

(* printing what the text declares prints the same text (dims that do not cover the shape are dropped by the first print) *)
Lemma print_dims_declared seq n dims shape :
  forallb legal n = true -> (seq = 0 \/ List.length shape <= seq) ->
  let p := pdims seq n dims shape in
  print_dims seq n (flat_map pd_names p) (map snd p) = print_dims seq n dims shape.
Proof.
  intros Hn [-> | Hs]; cbn zeta.
  - unfold pdims, print_dims. cbn [skipn]. destruct (dims_cover dims shape) eqn:Hc.
    + apply dims_cover_spec in Hc as [Hne Hlen].
      set (z := combine (map quote dims) shape).
      assert (Hq : map quote (map fst z) = map fst z).
      { rewrite <- (map_id (map fst z)) at 2. apply map_ext_in. intros a Ha.
        apply in_map_iff in Ha as ([a' b] & <- & Hin). apply in_combine_l in Hin.
        apply in_map_iff in Hin as (d & <- & _). apply quote_idempotent. }
      rewrite map_map. cbn [snd]. rewrite pd_names_named.
      assert (Hz : List.length z = List.length shape).
      { unfold z. rewrite combine_length, map_length. lia. }
      assert (Hc2 : dims_cover (map fst z) (map (fun x : chars * nat => snd x) z) = true).
      { apply dims_cover_spec. split.
        - destruct z as [|? ?]; [|discriminate]. cbn in Hz. destruct dims; [congruence|]. destruct shape; cbn in *; lia.
        - rewrite !map_length. reflexivity. }
      rewrite Hc2, Hq. change (map (fun x : chars * nat => snd x) z) with (map snd z). rewrite combine_fst_snd. reflexivity.
    + destruct shape as [|m [|m' sh]].
      * reflexivity.
      * cbn [flat_map pd_names fst snd map app combine dims_cover List.length Nat.eqb]. rewrite (quote_fix n Hn).
        cbn [flat_map]. apply app_nil_r.
      * rewrite map_map. cbn [snd]. rewrite map_id, pd_names_anon. reflexivity.
  - unfold pdims, print_dims. rewrite (skipn_short seq shape Hs).
    assert (Hc : dims_cover dims [] = false) by (destruct dims; reflexivity).
    rewrite Hc. cbn [map flat_map]. rewrite skipn_nil. reflexivity.
Qed.

Lemma flat_map_declared (pr : dtree -> chars) (d : dtree -> dtree) ks :
  Forall (fun k => pr (d k) = pr k) ks -> flat_map pr (map d ks) = flat_map pr ks.
Proof. induction 1 as [|k ks Hk _ IH]; [reflexivity|]. cbn [map flat_map]. rewrite Hk, IH. reflexivity. Qed.

Lemma print_declared t : forall lvl seq,
  wfb t = true -> flatb seq t = true -> print_decl lvl seq (declared seq t) = print_decl lvl seq t.
Proof.
  induction t as [ty n dims shape|n ks IH|n ks IH|n a ms IHa IHm] using dtree_ind2; intros lvl seq Hw Hf.
  - cbn [declared print_decl]. rewrite print_dims_declared; [reflexivity| |].
    + cbn [wfb] in Hw. apply andb_true_iff in Hw as [Hn _]. apply wf_nameb_spec in Hn. apply Hn.
    + cbn [flatb] in Hf. apply orb_true_iff in Hf as [H | H]; [left; apply Nat.eqb_eq, H|right; apply Nat.leb_le, H].
  - cbn [declared print_decl]. cbn [wfb flatb] in Hw, Hf. apply andb_true_iff in Hw as [_ Hk].
    rewrite flat_map_declared; [reflexivity|]. apply Forall_forall. intros k Hin. rewrite Forall_forall in IH.
    rewrite forallb_forall in Hk, Hf. apply IH; auto.
  - cbn [declared print_decl]. cbn [wfb flatb] in Hw, Hf. apply andb_true_iff in Hw as [_ Hk].
    rewrite flat_map_declared; [reflexivity|]. apply Forall_forall. intros k Hin. rewrite Forall_forall in IH.
    rewrite forallb_forall in Hk, Hf. apply IH; auto.
  - cbn [declared print_decl]. cbn [wfb flatb] in Hw, Hf.
    apply andb_true_iff in Hw as [Hw Hwm]. apply andb_true_iff in Hw as [Hw _]. apply andb_true_iff in Hw as [_ Hwa].
    apply andb_true_iff in Hf as [Hfa Hfm].
    rewrite IHa by assumption. rewrite flat_map_declared; [reflexivity|].
    apply Forall_forall. intros k Hin. rewrite Forall_forall in IHm. rewrite forallb_forall in Hwm, Hfm. apply IHm; auto.
Qed.

Theorem print_parse_print name kids :
  wf_nameb name = true -> forallb wfb kids = true -> forallb (flatb 0) kids = true ->
  exists name' kids', parse_dataset (print_dataset name kids) = Some (name', kids') /\
                      print_dataset name' kids' = print_dataset name kids.
Proof.
  intros Hn Hk Hf. exists name, (map (declared 0) kids). split; [apply parse_print_dataset; assumption|].
  unfold print_dataset. rewrite flat_map_declared; [reflexivity|].
  apply Forall_forall. intros k Hin. rewrite forallb_forall in Hk, Hf. apply print_declared; auto.
Qed.

(* the restriction flatb is needed: an array-valued member of a Sequence reprints without its dimensions *)
Definition seq_with_array : list dtree := [TSeq (s2l "s") [TBase Int32 (s2l "a") [] [2]; TBase Float64 (s2l "v") [] [2; 3]]].
Theorem print_parse_print_refuted :
  forallb wfb seq_with_array = true /\
  exists name' kids', parse_dataset (print_dataset (s2l "d") seq_with_array) = Some (name', kids') /\
                      print_dataset name' kids' <> print_dataset (s2l "d") seq_with_array.
Proof.
  split; [reflexivity|]. eexists _, _. split; [vm_compute; reflexivity|]. vm_compute. discriminate.
Qed.

(* ------------------------------------------------------------------ reading `declared` *)
Lemma declared_base_named seq ty n dims shape :
  dims <> [] -> List.length dims = List.length (skipn seq shape) ->
  let z := combine (map quote dims) (skipn seq shape) in
  declared seq (TBase ty n dims shape) = TBase ty n (map fst z) (map snd z).
Proof.
  intros Hne Hl. cbn zeta. cbn [declared]. unfold pdims.
  assert (Hc : dims_cover dims (skipn seq shape) = true) by (apply dims_cover_spec; split; assumption).
  rewrite Hc. set (z := combine _ _). f_equal.
  - apply pd_names_named.
  - rewrite map_map. reflexivity.
Qed.
Lemma declared_base_rank1 seq ty n dims shape m :
  dims_cover dims (skipn seq shape) = false ->
  skipn seq shape = [m] -> declared seq (TBase ty n dims shape) = TBase ty n [n] [m].
Proof. intros Hc E. cbn [declared]. unfold pdims. rewrite Hc, E. reflexivity. Qed.
Lemma declared_base_anon seq ty n dims shape :
  dims_cover dims (skipn seq shape) = false ->
  List.length (skipn seq shape) <> 1 -> declared seq (TBase ty n dims shape) = TBase ty n [] (skipn seq shape).
Proof.
  intros Hc E. cbn [declared]. unfold pdims. rewrite Hc. destruct (skipn seq shape) as [|m [|m' sh]]; [reflexivity|cbn in E; lia|].
  rewrite map_map. cbn [snd]. rewrite map_id. f_equal. apply pd_names_anon.
Qed.
Lemma map_snd_combine' {A B} (a : list A) (b : list B) : List.length a = List.length b -> map snd (combine a b) = b.
Proof. revert b; induction a as [|x a IH]; intros [|y b] H; cbn in *; try reflexivity; try lia. f_equal. apply IH. lia. Qed.
(* whatever the dimension names: the text declares the WHOLE shape below the enclosing Sequences *)
Lemma declared_shape_whole seq ty n dims shape :
  exists dims', declared seq (TBase ty n dims shape) = TBase ty n dims' (skipn seq shape) /\
                (dims' = [] \/ List.length dims' = List.length (skipn seq shape)).
Proof.
  cbn [declared]. unfold pdims. destruct (dims_cover dims (skipn seq shape)) eqn:Hc.
  - apply dims_cover_spec in Hc as [_ Hl]. eexists; split; [f_equal|].
    + rewrite map_map. cbn [snd]. change (fun x : chars * nat => snd x) with (@snd chars nat).
      rewrite map_snd_combine'; [reflexivity | rewrite map_length; lia].
    + right. rewrite pd_names_named, map_length, combine_length, map_length. lia.
  - destruct (skipn seq shape) as [|m [|m' sh]].
    + exists []. split; [reflexivity|left; reflexivity].
    + exists [n]. split; [reflexivity|right; reflexivity].
    + exists []. split; [|left; reflexivity]. f_equal; [apply pd_names_anon|]. rewrite map_map. cbn [snd]. apply map_id.
Qed.

(* every pydap name is in quoted form: quoting makes a name well-formed for the DDS *)
Lemma quoted_name_wf s : s <> [] -> prefixb (s2l "dap4") s = false -> wf_nameb (quote s) = true.
Proof.
  intros Hs Hd. unfold wf_nameb. rewrite (quote_legal s Hd). pose proof (quote_nonempty s Hs) as H.
  destruct (quote s); [congruence|reflexivity].
Qed.
