(* C11: distinct declarations have distinct fully qualified names - so the no-duplicate premises of C11_parse_render follow
   from what a DMR guarantees by construction (names unique within their group). *)
From PydapV Require Import Base Quote QuoteProofs StrLemmas DDS DDSProofs DMR DMRProofs.
From Coq Require Import Lia.
Open Scope nat_scope.

Definition ns (n : chars) : Prop := n <> [] /\ no_slash n = true.

Lemma parts_fqn_root n : no_slash n = true -> parts (fqn [] n) = [n].
Proof. apply parts_short. Qed.
Lemma parts_fqn_nested g p n :
  Forall (fun x => no_slash x = true) (g :: p) -> no_slash n = true -> parts (fqn (g :: p) n) = [] :: (g :: p) ++ [n].
Proof. intros Hp Hn. unfold fqn. apply parts_path; assumption. Qed.

(* fully qualified names are injective *)
Theorem fqn_inj p n p' n' :
  Forall (fun x => no_slash x = true) p -> Forall (fun x => no_slash x = true) p' -> ns n -> ns n' ->
  fqn p n = fqn p' n' -> p = p' /\ n = n'.
Proof.
  intros Hp Hp' [Hne Hn] [Hne' Hn'] E.
  assert (Ep : parts (fqn p n) = parts (fqn p' n')) by (rewrite E; reflexivity).
  destruct p as [|g p], p' as [|g' p'].
  - rewrite !parts_fqn_root in Ep by assumption. injection Ep as ->. split; reflexivity.
  - rewrite parts_fqn_root, parts_fqn_nested in Ep by assumption. cbn [app] in Ep. injection Ep as E1 E2. subst n. congruence.
  - rewrite parts_fqn_root, parts_fqn_nested in Ep by assumption. cbn [app] in Ep. injection Ep as E1 E2. subst n'. congruence.
  - rewrite !parts_fqn_nested in Ep by assumption. cbn [app] in Ep. injection Ep as Eg Et.
    apply app_inj_tail in Et as [-> ->]. subst. split; reflexivity.
Qed.

(* ------------------------------------------------------------------ structural uniqueness *)
Lemma wf_short_ns n : wf_short n = true -> ns n.
Proof. intros H. destruct (wf_short_parts n H) as (A & _ & B). split; assumption. Qed.

(* the keys one collection pass produces: leaves selected by [sel] at the current path, groups recursively *)
Section Keys.
  Variable sel : item -> option chars.
  Fixpoint keys_item (p : list chars) (it : item) : list chars :=
    match it with
    | IGroup g its => flat_map (keys_item (p ++ [g])) its
    | _ => match sel it with Some n => [fqn p n] | None => [] end
    end.
  Definition group_name (it : item) : option chars := match it with IGroup g _ => Some g | _ => None end.
  Definition somes {X} (l : list (option X)) : list X := flat_map (fun o => match o with Some x => [x] | None => [] end) l.

  (* per group: selected leaf names pairwise distinct, sub-group names pairwise distinct; all slash-free and non-empty *)
  Fixpoint uniq_item (it : item) : bool :=
    match it with
    | IGroup g its =>
        wf_short g && nodupb (somes (map sel its)) && nodupb (somes (map group_name its)) &&
        forallb (fun n => wf_short n) (somes (map sel its)) && forallb uniq_item its
    | _ => true
    end.
  Definition uniq_items (its : list item) : bool :=
    nodupb (somes (map sel its)) && nodupb (somes (map group_name its)) &&
    forallb (fun n => wf_short n) (somes (map sel its)) && forallb uniq_item its.

  Hypothesis sel_group : forall g its, sel (IGroup g its) = None.

  Lemma in_somes {X} (x : X) l : In (Some x) l -> In x (somes l).
  Proof. intros H. unfold somes. apply in_flat_map. exists (Some x). split; [exact H|left; reflexivity]. Qed.

  (* where the keys of an item live *)
  Lemma keys_shape it : forall p k, uniq_item it = true -> In k (keys_item p it) ->
    match it with
    | IGroup g _ => exists q n, k = fqn (p ++ g :: q) n /\ Forall (fun x => no_slash x = true) q /\ ns n /\ ns g
    | _ => exists n, sel it = Some n /\ k = fqn p n
    end.
  Proof.
    induction it as [n s|vt n dims attrs maps|g its IH|a] using item_ind2; intros p k Hu Hin; cbn [keys_item] in Hin.
    - destruct (sel (IDim n s)) as [m|]; [|destruct Hin]. destruct Hin as [<- | []]. exists m. split; reflexivity.
    - destruct (sel (IVar vt n dims attrs maps)) as [m|]; [|destruct Hin]. destruct Hin as [<- | []]. exists m. split; reflexivity.
    - cbn [uniq_item] in Hu. apply andb_true_iff in Hu as [Hu Huk]. apply andb_true_iff in Hu as [Hu Hwf].
      apply andb_true_iff in Hu as [Hu _]. apply andb_true_iff in Hu as [Hg _].
      apply in_flat_map in Hin as (it & Hit & Hk). rewrite Forall_forall in IH. rewrite forallb_forall in Huk.
      specialize (IH it Hit (p ++ [g]) k (Huk it Hit) Hk).
      assert (Hgs : ns g) by (apply wf_short_ns, Hg).
      destruct it as [n s|vt n dims attrs maps|g2 its2|a].
      + destruct IH as (m & Hs & ->). exists [], m. repeat split; try (apply Hgs); [constructor|..].
        all: rewrite forallb_forall in Hwf; apply wf_short_ns, Hwf, in_somes, in_map_iff; exists (IDim n s); split; [exact Hs|exact Hit].
      + destruct IH as (m & Hs & ->). exists [], m. repeat split; try (apply Hgs); [constructor|..].
        all: rewrite forallb_forall in Hwf; apply wf_short_ns, Hwf, in_somes, in_map_iff; exists (IVar vt n dims attrs maps); split; [exact Hs|exact Hit].
      + destruct IH as (q & m & -> & Hq & Hm & Hg2). exists (g2 :: q), m. rewrite <- app_assoc. cbn [app].
        repeat split; try (apply Hgs); try (apply Hm). constructor; [apply Hg2|exact Hq].
      + destruct IH as (m & Hs & ->). exists [], m. repeat split; try (apply Hgs); [constructor|..].
        all: rewrite forallb_forall in Hwf; apply wf_short_ns, Hwf, in_somes, in_map_iff; exists (IAttr a); split; [exact Hs|exact Hit].
    - destruct (sel (IAttr a)) as [m|]; [|destruct Hin]. destruct Hin as [<- | []]. exists m. split; reflexivity.
  Qed.

  Lemma nodup_app_intro {T} (a b : list T) : NoDup a -> NoDup b -> (forall x, In x a -> ~ In x b) -> NoDup (a ++ b).
  Proof.
    induction a as [|x a IH]; intros Ha Hb Hd; [exact Hb|]. inversion Ha as [|? ? Hx Ha']; subst. cbn [app]. constructor.
    - intros Hin. apply in_app_or in Hin as [Hin | Hin]; [contradiction|]. apply (Hd x (or_introl eq_refl) Hin).
    - apply IH; [exact Ha'|exact Hb|]. intros y Hy. apply Hd. right. exact Hy.
  Qed.

  Lemma somes_cons_some {X} (x : X) l : somes (Some x :: l) = x :: somes l.
  Proof. reflexivity. Qed.
  Lemma somes_cons_none {X} (l : list (option X)) : somes (None :: l) = somes l.
  Proof. reflexivity. Qed.

  Lemma app_self_absurd {T} (p : list T) x q : p = p ++ x :: q -> False.
  Proof. intros H. apply (f_equal (@List.length T)) in H. rewrite app_length in H. cbn [List.length] in H. lia. Qed.

  (* a uniform reading of keys_shape *)
  Lemma keys_shape2 it p k :
    uniq_item it = true -> (forall n, sel it = Some n -> ns n) -> In k (keys_item p it) ->
    exists q n, k = fqn (p ++ q) n /\ Forall (fun x => no_slash x = true) q /\ ns n /\
                match q with [] => sel it = Some n | g :: _ => group_name it = Some g end.
  Proof.
    intros Hu Hl Hin. pose proof (keys_shape it p k Hu Hin) as S.
    destruct it as [n s|vt n dims attrs maps|g its|a].
    - destruct S as (m & Hm & ->). exists [], m. rewrite app_nil_r. repeat split; [constructor|apply (Hl m Hm)|apply (Hl m Hm)|exact Hm].
    - destruct S as (m & Hm & ->). exists [], m. rewrite app_nil_r. repeat split; [constructor|apply (Hl m Hm)|apply (Hl m Hm)|exact Hm].
    - destruct S as (q & m & -> & Hq & Hm & Hg). exists (g :: q), m. repeat split; try apply Hm. constructor; [apply Hg|exact Hq].
    - destruct S as (m & Hm & ->). exists [], m. rewrite app_nil_r. repeat split; [constructor|apply (Hl m Hm)|apply (Hl m Hm)|exact Hm].
  Qed.

  Lemma keys_clash it it' p k :
    Forall (fun x => no_slash x = true) p ->
    uniq_item it = true -> uniq_item it' = true ->
    (forall n, sel it = Some n -> ns n) -> (forall n, sel it' = Some n -> ns n) ->
    In k (keys_item p it) -> In k (keys_item p it') ->
    (exists n, sel it = Some n /\ sel it' = Some n) \/ (exists g, group_name it = Some g /\ group_name it' = Some g).
  Proof.
    intros Hp Hu Hu' Hl Hl' H1 H2.
    destruct (keys_shape2 it p k Hu Hl H1) as (q & n & E1 & Hq & Hn & S1).
    destruct (keys_shape2 it' p k Hu' Hl' H2) as (q' & n' & E2 & Hq' & Hn' & S2).
    rewrite E1 in E2. destruct (fqn_inj (p ++ q) n (p ++ q') n') as [Epq <-]; try assumption;
      try (apply Forall_app; split; assumption).
    apply app_inv_head in Epq. subst q'. destruct q as [|g q]; [left; exists n; split; assumption|right; exists g; split; assumption].
  Qed.

  (* the keys of a list of sibling items are pairwise distinct *)
  Lemma keys_nodup_list its : forall p,
    Forall (fun it => forall p, Forall (fun x => no_slash x = true) p -> uniq_item it = true -> NoDup (keys_item p it)) its ->
    Forall (fun x => no_slash x = true) p ->
    nodupb (somes (map sel its)) = true -> nodupb (somes (map group_name its)) = true ->
    forallb (fun n => wf_short n) (somes (map sel its)) = true -> forallb uniq_item its = true ->
    NoDup (flat_map (keys_item p) its).
  Proof.
    induction its as [|it its IH]; intros p HP Hp Hs Hg Hw Hu; [constructor|].
    inversion HP as [|? ? Hit HP']; subst. cbn [forallb] in Hu. apply andb_true_iff in Hu as [Hui Hu].
    cbn [flat_map]. cbn [map] in Hs, Hg, Hw.
    assert (Hleaf : forall x n, In x (it :: its) -> sel x = Some n -> ns n).
    { intros x n Hx Hn. rewrite forallb_forall in Hw. apply wf_short_ns, Hw.
      change (somes (sel it :: map sel its)) with (somes (map sel (it :: its))). apply in_somes, in_map_iff. exists x. split; assumption. }
    assert (Htail : NoDup (flat_map (keys_item p) its)).
    { apply IH; try assumption.
      - destruct (sel it); [rewrite somes_cons_some in Hs; cbn [nodupb] in Hs; apply andb_true_iff in Hs; apply Hs|exact Hs].
      - destruct (group_name it); [rewrite somes_cons_some in Hg; cbn [nodupb] in Hg; apply andb_true_iff in Hg; apply Hg|exact Hg].
      - destruct (sel it); [rewrite somes_cons_some in Hw; cbn [forallb] in Hw; apply andb_true_iff in Hw; apply Hw|exact Hw]. }
    apply nodup_app_intro; [apply Hit; assumption|exact Htail|].
    intros k Hk1 Hk2. apply in_flat_map in Hk2 as (it' & Hit' & Hk2).
    rewrite forallb_forall in Hu.
    destruct (keys_clash it it' p k Hp Hui (Hu it' Hit') (fun n => Hleaf it n (or_introl eq_refl)) (fun n => Hleaf it' n (or_intror Hit')) Hk1 Hk2)
      as [(n & Hn1 & Hn2) | (g & Hg1 & Hg2)].
    - rewrite Hn1, somes_cons_some in Hs. apply nodupb_spec in Hs. inversion Hs as [|? ? Hnot _]. apply Hnot.
      apply in_somes, in_map_iff. exists it'. split; assumption.
    - rewrite Hg1, somes_cons_some in Hg. apply nodupb_spec in Hg. inversion Hg as [|? ? Hnot _]. apply Hnot.
      apply in_somes, in_map_iff. exists it'. split; assumption.
  Qed.

  Lemma keys_nodup_item it : forall p, Forall (fun x => no_slash x = true) p -> uniq_item it = true -> NoDup (keys_item p it).
  Proof.
    induction it as [n s|vt n dims attrs maps|g its IH|a] using item_ind2; intros p Hp Hu; cbn [keys_item].
    - destruct (sel (IDim n s)); repeat constructor. intros [].
    - destruct (sel (IVar vt n dims attrs maps)); repeat constructor. intros [].
    - cbn [uniq_item] in Hu. apply andb_true_iff in Hu as [Hu Huk]. apply andb_true_iff in Hu as [Hu Hwf].
      apply andb_true_iff in Hu as [Hu Hng]. apply andb_true_iff in Hu as [Hg Hns].
      apply keys_nodup_list; try assumption.
      apply Forall_app. split; [exact Hp|constructor; [apply (wf_short_parts g Hg)|constructor]].
    - destruct (sel (IAttr a)); repeat constructor. intros [].
  Qed.

  Theorem keys_nodup its :
    uniq_items its = true -> NoDup (flat_map (keys_item []) its).
  Proof.
    unfold uniq_items. intros H. apply andb_true_iff in H as [H Hu]. apply andb_true_iff in H as [H Hw]. apply andb_true_iff in H as [Hs Hg].
    apply keys_nodup_list; try assumption; [|constructor].
    apply Forall_forall. intros it _ p Hp Hui. apply keys_nodup_item; assumption.
  Qed.
End Keys.

(* ------------------------------------------------------------------ the two passes of the parser *)
Definition selvar (it : item) : option chars := match it with IVar _ n _ _ _ => Some n | _ => None end.
Definition seldim (it : item) : option chars := match it with IDim n _ => Some n | _ => None end.

Lemma map_flat_map {X Y Z} (f : Y -> Z) (g : X -> list Y) l : map f (flat_map g l) = flat_map (fun x => map f (g x)) l.
Proof. induction l as [|x l IH]; [reflexivity|]. cbn [flat_map]. rewrite map_app, IH. reflexivity. Qed.

Lemma flat_map_ext_in {X Y} (f g : X -> list Y) l : (forall x, In x l -> f x = g x) -> flat_map f l = flat_map g l.
Proof. induction l as [|x l IH]; intros H; [reflexivity|]. cbn [flat_map]. rewrite (H x (or_introl eq_refl)), IH; [reflexivity|]. intros y Hy. apply H. right. exact Hy. Qed.

Lemma var_keys it : forall p parent, map fst (var_entries_item p parent it) = keys_item selvar p it.
Proof.
  induction it as [n s|vt n dims attrs maps|g its IH|a] using item_ind2; intros p parent; try reflexivity.
  cbn [var_entries_item keys_item]. rewrite map_flat_map. apply flat_map_ext_in. intros it Hit. rewrite Forall_forall in IH. apply IH, Hit.
Qed.
Lemma dim_keys it : forall p, map fst (decl_dims_item p it) = keys_item seldim p it.
Proof.
  induction it as [n s|vt n dims attrs maps|g its IH|a] using item_ind2; intros p; try reflexivity.
  cbn [decl_dims_item keys_item]. rewrite map_flat_map. apply flat_map_ext_in. intros it Hit. rewrite Forall_forall in IH. apply IH, Hit.
Qed.

Theorem structural_uniqueness items :
  uniq_items selvar items = true -> uniq_items seldim items = true ->
  NoDup (map fst (var_entries [] (s2l "Dataset") items)) /\ NoDup (map fst (decl_dims [] items)).
Proof.
  intros Hv Hd. split.
  - unfold var_entries. rewrite map_flat_map. erewrite flat_map_ext; [apply (keys_nodup selvar items Hv)|].
    intros it. apply var_keys.
  - unfold decl_dims. rewrite map_flat_map. erewrite flat_map_ext; [apply (keys_nodup seldim items Hd)|].
    intros it. apply dim_keys.
Qed.

(* C11 with structural premises only *)
Theorem parse_render_structural dsname items vs :
  forallb wf_item items = true -> forallb attrs_ok items = true ->
  uniq_items selvar items = true -> uniq_items seldim items = true ->
  decl_vars items [] (s2l "Dataset") items = Some vs ->
  parse_dmr (render dsname items) = Some vs.
Proof.
  intros Hw Ha Hv Hd Hdecl. destruct (structural_uniqueness items Hv Hd) as [H1 H2].
  apply parse_render; assumption.
Qed.
