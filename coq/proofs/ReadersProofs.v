(* C09: what is read does not depend on the chunking; the separator search finds the first
   occurrence for every partition of the stream. *)
From PydapV Require Import Base Readers.
Open Scope nat_scope.

Definition sall (r : sreader) : bytes := sbuf r ++ List.concat (schunks r).

(* ---------------------------------------------------------------- StreamReader *)
Lemma sfill_spec chunks : forall buf n,
  (n <= List.length (buf ++ List.concat chunks) ->
     exists buf' cs', sfill n buf chunks = Some (buf', cs') /\
                      buf' ++ List.concat cs' = buf ++ List.concat chunks /\ n <= List.length buf') /\
  (List.length (buf ++ List.concat chunks) < n -> sfill n buf chunks = None).
Proof.
  induction chunks as [|c cs IH]; intros buf n; cbn [sfill List.concat].
  - rewrite app_nil_r. destruct (Nat.leb_spec n (List.length buf)) as [Hle|Hlt]; split; intros Hn; try lia.
    + exists buf, []. rewrite app_nil_r. repeat split; try reflexivity; try assumption.
    + reflexivity.
  - destruct (Nat.leb_spec n (List.length buf)) as [Hle|Hlt].
    + split; [|rewrite app_length; lia]. intros _. exists buf, (c :: cs). repeat split; try reflexivity; try assumption.
    + destruct (IH (buf ++ c) n) as [I1 I2]. rewrite <- app_assoc in I1, I2. split; assumption.
Qed.

Lemma sread_some r n :
  n <= List.length (sall r) ->
  exists r', sread r n = Some (firstn n (sall r), r') /\ sall r' = skipn n (sall r).
Proof.
  intros Hn. unfold sread, sall in *.
  destruct (proj1 (sfill_spec (schunks r) (sbuf r) n) Hn) as (buf' & cs' & -> & E & Hl).
  eexists; split; [|cbn [sbuf schunks]].
  - rewrite <- E. rewrite firstn_app. replace (n - List.length buf') with 0 by lia.
    cbn [firstn]. now rewrite app_nil_r.
  - rewrite <- E. rewrite skipn_app. replace (n - List.length buf') with 0 by lia. reflexivity.
Qed.

Lemma sread_none r n : List.length (sall r) < n -> sread r n = None.
Proof. intros Hn. unfold sread. now rewrite (proj2 (sfill_spec (schunks r) (sbuf r) n) Hn). Qed.

(* Reading through the buffering StreamReader, whatever the chunking, gives exactly what reading the
   concatenated bytes gives - including WHEN it fails (too few bytes left). *)
Theorem sreads_breads ns : forall r, sreads r ns = breads (sall r) ns.
Proof.
  induction ns as [|n ns IH]; intros r; cbn [sreads breads]; [reflexivity|]. unfold bread.
  destruct (Nat.leb_spec n (List.length (sall r))) as [Hle|Hgt].
  - destruct (sread_some r n Hle) as (r' & -> & Er'). rewrite IH, Er'. reflexivity.
  - now rewrite (sread_none r n Hgt).
Qed.

Theorem chunking_independent r1 r2 ns : sall r1 = sall r2 -> sreads r1 ns = sreads r2 ns.
Proof. intros E. now rewrite !sreads_breads, E. Qed.

(* ---------------------------------------------------------------- leftmost occurrence *)
Lemma prefixb_length p s : prefixb p s = true -> List.length p <= List.length s.
Proof.
  revert s; induction p as [|a p IH]; intros s H; cbn; [lia|].
  destruct s as [|b s]; [discriminate|]. cbn in H. apply andb_true_iff in H as [_ H].
  apply IH in H. cbn. lia.
Qed.

Lemma prefixb_app_long p s t : List.length p <= List.length s -> prefixb p (s ++ t) = prefixb p s.
Proof.
  revert s; induction p as [|a p IH]; intros s H; [reflexivity|].
  destruct s as [|b s]; [cbn in H; lia|]. cbn. f_equal. apply IH. cbn in H. lia.
Qed.

Lemma find_end_none_all p s : find_end p s = None -> forall i, prefixb p (skipn i s) = false.
Proof.
  induction s as [|x s IH]; cbn [find_end]; intros H i.
  - destruct (prefixb p []) eqn:E; [discriminate|]. now rewrite skipn_nil.
  - destruct (prefixb p (x :: s)) eqn:E; [discriminate|].
    destruct (find_end p s) eqn:Ef; [discriminate|].
    destruct i as [|i]; [exact E|]. cbn [skipn]. now apply IH.
Qed.

Lemma find_end_some_len p s e : find_end p s = Some e -> List.length p <= e <= List.length s.
Proof.
  revert e; induction s as [|x s IH]; intros e; cbn [find_end].
  - destruct (prefixb p []) eqn:E; [|discriminate]. intros [= <-]. apply prefixb_length in E. cbn in *. lia.
  - destruct (prefixb p (x :: s)) eqn:E.
    + intros [= <-]. apply prefixb_length in E. lia.
    + destruct (find_end p s) as [e'|]; [|discriminate]. cbn. intros [= <-].
      specialize (IH e' eq_refl). cbn. lia.
Qed.

Lemma find_end_app_some p s t e : find_end p s = Some e -> find_end p (s ++ t) = Some e.
Proof.
  revert e; induction s as [|x s IH]; intros e; cbn [find_end app].
  - destruct (prefixb p []) eqn:E; [|discriminate]. intros [= <-].
    destruct p; [|discriminate]. cbn. destruct t; reflexivity.
  - destruct (prefixb p (x :: s)) eqn:E.
    + intros [= <-]. change (x :: s ++ t) with ((x :: s) ++ t).
      rewrite prefixb_app_long by (now apply prefixb_length). now rewrite E.
    + destruct (find_end p s) as [e'|] eqn:Ef; [|discriminate]. cbn. intros [= <-].
      pose proof (find_end_some_len _ _ _ Ef) as [Hl1 Hl2].
      change (x :: s ++ t) with ((x :: s) ++ t).
      rewrite prefixb_app_long by (cbn [List.length]; lia). rewrite E. now rewrite (IH e' eq_refl).
Qed.

(* no occurrence starts inside [a]: the search may skip it *)
Lemma find_end_shift p a r :
  (forall i, i < List.length a -> prefixb p (skipn i (a ++ r)) = false) ->
  find_end p (a ++ r) = option_map (plus (List.length a)) (find_end p r).
Proof.
  induction a as [|x a IH]; intros H.
  - cbn. destruct (find_end p r); reflexivity.
  - cbn [app find_end]. pose proof (H 0 ltac:(cbn; lia)) as H0. cbn [skipn app] in H0. rewrite H0.
    rewrite IH.
    + destruct (find_end p r); reflexivity.
    + intros i Hi. apply (H (S i)). cbn. lia.
Qed.

Lemma skipn_plus_app {A} (a b : list A) n : skipn (List.length a + n) (a ++ b) = skipn n b.
Proof. induction a as [|x a IH]; cbn; [reflexivity|exact IH]. Qed.
Lemma skipn_app_le {A} (a b : list A) n : n <= List.length a -> skipn n (a ++ b) = skipn n a ++ b.
Proof.
  intros H. rewrite skipn_app. replace (n - List.length a) with 0 by lia. reflexivity.
Qed.

(* ---------------------------------------------------------------- the separator search *)
Lemma lastn_split n l : exists k, l = firstn k l ++ lastn n l /\ k = List.length l - n.
Proof. exists (List.length l - n). split; [|reflexivity]. unfold lastn. symmetry. apply firstn_skipn. Qed.

Lemma lastn_length n l : List.length (lastn n l) = Nat.min n (List.length l).
Proof. unfold lastn. rewrite skipn_length. lia. Qed.

Lemma find_pattern_gen p : p <> [] -> forall cs pre0 last,
  find_end p (pre0 ++ last) = None ->
  (pre0 = [] \/ List.length p <= List.length last) ->
  match find_pattern p last cs with
  | Some (rest, cs') => exists e, find_end p (pre0 ++ last ++ List.concat cs) = Some e /\
                                  rest ++ List.concat cs' = skipn e (pre0 ++ last ++ List.concat cs)
  | None => find_end p (pre0 ++ last ++ List.concat cs) = None
  end.
Proof.
  intros Hp. induction cs as [|c cs IH]; intros pre0 last Hnone Hlong; cbn [find_pattern List.concat].
  - now rewrite app_nil_r.
  - (* no occurrence starts inside pre0 *)
    assert (Hskip : forall t i, i < List.length pre0 -> prefixb p (skipn i (pre0 ++ last ++ t)) = false).
    { intros t i Hi. destruct Hlong as [->|Hl]; [cbn in Hi; lia|].
      rewrite app_assoc. rewrite skipn_app.
      replace (i - List.length (pre0 ++ last)) with 0 by (rewrite app_length; lia). cbn [skipn].
      rewrite prefixb_app_long.
      - now apply find_end_none_all.
      - rewrite skipn_length, app_length. lia. }
    destruct (find_end p (last ++ c)) as [e|] eqn:Ef.
    + exists (List.length pre0 + e).
      assert (E1 : find_end p (pre0 ++ last ++ c ++ List.concat cs) = Some (List.length pre0 + e)).
      { rewrite find_end_shift by (apply Hskip).
        rewrite (app_assoc last c). rewrite (find_end_app_some _ _ _ _ Ef). reflexivity. }
      split; [exact E1|].
      pose proof (find_end_some_len _ _ _ Ef) as [_ Hle].
      rewrite skipn_plus_app. rewrite (app_assoc last c). now rewrite (skipn_app_le (last ++ c)).
    + (* continue with the retained tail *)
      destruct (lastn_split (List.length p) (last ++ c)) as (k & Esplit & Ek).
      specialize (IH (pre0 ++ firstn k (last ++ c)) (lastn (List.length p) (last ++ c))).
      assert (Hsame : (pre0 ++ firstn k (last ++ c)) ++ lastn (List.length p) (last ++ c) = pre0 ++ last ++ c).
      { rewrite <- app_assoc. rewrite <- Esplit. now rewrite app_assoc. }
      assert (Hnone' : find_end p (pre0 ++ last ++ c) = None).
      { rewrite (find_end_shift p pre0 (last ++ c)) by (intros i Hi; rewrite <- (app_nil_r c), app_assoc;
          rewrite <- app_assoc; rewrite app_nil_r; apply (Hskip c i Hi)).
        now rewrite Ef. }
      rewrite Hsame in IH. specialize (IH Hnone').
      assert (Hlong' : pre0 ++ firstn k (last ++ c) = [] \/
                       List.length p <= List.length (lastn (List.length p) (last ++ c))).
      { rewrite lastn_length. destruct (Nat.le_gt_cases (List.length p) (List.length (last ++ c))) as [H|H].
        - right. lia.
        - left. replace k with 0 by lia. cbn [firstn]. rewrite app_nil_r.
          destruct Hlong as [->|Hl]; [reflexivity|]. rewrite app_length in H. lia. }
      specialize (IH Hlong').
      replace ((pre0 ++ firstn k (last ++ c)) ++ lastn (List.length p) (last ++ c) ++ List.concat cs)
        with (pre0 ++ last ++ c ++ List.concat cs) in IH.
      * exact IH.
      * transitivity ((pre0 ++ last ++ c) ++ List.concat cs); [now rewrite <- !app_assoc|].
        rewrite <- Hsame. now rewrite <- !app_assoc.
Qed.

(* For EVERY partition cs of a byte stream and every non-empty literal pattern: the search succeeds
   iff the pattern occurs in the stream, and what is left to read (rest of the current chunk followed
   by the unconsumed chunks) is exactly the stream after the FIRST occurrence. *)
Theorem find_pattern_any_chunking p cs :
  p <> [] ->
  match find_pattern_in_string_iter p cs with
  | Some (rest, cs') => exists e, find_end p (List.concat cs) = Some e /\ rest ++ List.concat cs' = skipn e (List.concat cs)
  | None => find_end p (List.concat cs) = None
  end.
Proof.
  intros Hp. unfold find_pattern_in_string_iter.
  apply (find_pattern_gen p Hp cs [] []); [|now left].
  cbn. destruct p; [congruence|reflexivity].
Qed.

(* hence the sequence client reads, for every chunking, exactly the bytes after the first "Data:\n" *)
Corollary data_stream_any_chunking cs1 cs2 :
  List.concat cs1 = List.concat cs2 ->
  match data_stream cs1, data_stream cs2 with
  | Some r1, Some r2 => sall r1 = sall r2
  | None, None => True
  | _, _ => False
  end.
Proof.
  intros E. unfold data_stream.
  set (p := s2l "Data:" ++ ["010"%char]).
  assert (Hp : p <> []) by discriminate.
  pose proof (find_pattern_any_chunking p cs1 Hp) as H1.
  pose proof (find_pattern_any_chunking p cs2 Hp) as H2.
  rewrite E in H1.
  destruct (find_pattern_in_string_iter p cs1) as [[r1 c1]|], (find_pattern_in_string_iter p cs2) as [[r2 c2]|].
  - destruct H1 as (e1 & F1 & G1), H2 as (e2 & F2 & G2). rewrite F1 in F2. injection F2 as <-.
    unfold sall. cbn [sbuf schunks List.concat app]. now rewrite G1, G2.
  - destruct H1 as (e1 & F1 & _). congruence.
  - destruct H2 as (e2 & F2 & _). congruence.
  - exact I.
Qed.
