(* L0: shared basics.  No axioms.  Strings are Coq [string]s (byte strings). *)
From Coq Require Export ZArith List Bool Lia String Ascii.
From Coq Require Import DecimalString DecimalZ.
Export ListNotations.
Open Scope Z_scope.

(* -- option helpers ------------------------------------------------------- *)
Definition obind {A B} (x : option A) (f : A -> option B) : option B :=
  match x with Some a => f a | None => None end.
Notation "'do' x <- e ; k" := (obind e (fun x => k))
  (at level 200, x name, e at level 100, k at level 200).

Section OMap.
  Context {A B : Type} (f : A -> option B).
  Fixpoint omap (l : list A) : option (list B) :=
    match l with
    | [] => Some []
    | x :: r => do y <- f x; do ys <- omap r; Some (y :: ys)
    end.
End OMap.

(* -- decimal print/parse of integers (Python "%s" % int  and  int(str)) ---- *)
Definition print_dec (z : Z) : string := NilZero.string_of_int (Z.to_int z).
Definition parse_dec (s : string) : option Z :=
  option_map Z.of_int (NilZero.int_of_string s).

(* -- strings as lists ------------------------------------------------------ *)
Fixpoint str_concat (l : list string) : string :=
  match l with [] => EmptyString | s :: r => (s ++ str_concat r)%string end.

Definition chars := list ascii.
Definition s2l := list_ascii_of_string.
Definition l2s := string_of_list_ascii.

Definition ascii_eqb := Ascii.eqb.

Fixpoint prefixb (p s : chars) : bool :=
  match p, s with
  | [], _ => true
  | a :: p', b :: s' => ascii_eqb a b && prefixb p' s'
  | _ :: _, [] => false
  end.

(* Python's str.split(sep) for a non-empty separator: leftmost, non-overlapping.
   [skip] counts separator characters still to be dropped after a match. *)
Fixpoint split_go (sep cur : chars) (skip : nat) (s : chars) : list chars :=
  match s with
  | [] => [rev cur]
  | c :: s' =>
    match skip with
    | S k => split_go sep cur k s'
    | O =>
      if prefixb sep s
      then rev cur :: split_go sep [] (List.length sep - 1) s'
      else split_go sep (c :: cur) O s'
    end
  end.
Definition split_on (sep s : chars) : list chars := split_go sep [] O s.

(* s[1:-1] *)
Definition strip_ends (s : chars) : chars := removelast (tl s).

(* -- zip_longest ----------------------------------------------------------- *)
Fixpoint zip_longest {A} (d : A) (a b : list A) : list (A * A) :=
  match a with
  | [] => map (fun y => (d, y)) b
  | x :: a' =>
    match b with
    | [] => (x, d) :: map (fun x' => (x', d)) a'
    | y :: b' => (x, y) :: zip_longest d a' b'
    end
  end.
