#!/usr/bin/env python3
"""usage: resolve_theirs.py <file> [ours|theirs|both]  - resolves every conflict block of a 3-way merge by taking one side"""
import re, sys
p, side = sys.argv[1], (sys.argv[2] if len(sys.argv) > 2 else "theirs")
s = open(p, "rb").read()
pat = re.compile(rb"<<<<<<< ours\r?\n(.*?)=======\r?\n(.*?)>>>>>>> theirs\r?\n", re.S)
n = len(pat.findall(s))
s = pat.sub(lambda m: {"ours": m.group(1), "theirs": m.group(2), "both": m.group(1) + m.group(2)}[side], s)
open(p, "wb").write(s)
print(n, "blocks resolved to", side)
