#!/bin/bash
# usage: tools/try_round.sh <Cxx> [seeds...]  - runs the check of <Cxx> against /tmp/out_<Cxx>/patch{1,2}.diff for the given VERIF_SEEDs
id="$1"; shift; seeds="${*:-0 2}"
for n in 1 2; do for s in $seeds; do
  echo "--- $id patch$n seed $s"
  VERIF_SEED=$s /verif/tools/with_patch.sh /tmp/out_$id/patch$n.diff $id 2>&1 | grep -E "VIOLATION|exit=|does not apply" | cut -c1-200 | head -4
done; done
