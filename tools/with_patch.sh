#!/bin/bash
# usage: tools/with_patch.sh <patch.diff> <Cxx> [<Cxx> ...]
# Applies the patch to a scratch worktree of /repo (outside /repo and /verif), runs the named
# checks against it through VERIF_REPO, removes the worktree.  /repo itself is never touched.
patch="$(readlink -f "$1")"; shift
wt="$(mktemp -d /tmp/verif_wt.XXXXXX)"; rmdir "$wt"
git -C /repo worktree add -q --detach "$wt" HEAD >/dev/null 2>&1 || { echo "worktree failed"; exit 2; }
trap 'git -C /repo worktree remove --force "$wt" >/dev/null 2>&1; rm -rf "$wt"' EXIT
( cd "$wt" && git apply "$patch" ) || { echo "patch does not apply"; exit 2; }
rc=0
for id in "$@"; do
  echo "== $id on $(basename "$patch")"
  VERIF_REPO="$wt" VERIF_EVIDENCE_DIR="$wt/.evidence" /verif/check "$id" --tier "${VERIF_TIER:-quick}" | cut -c1-220 | head -8
  r=${PIPESTATUS[0]}; echo "   exit=$r"; [ "$r" != 0 ] && rc=1
done
exit $rc
