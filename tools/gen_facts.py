#!/usr/bin/env python3
"""Fail-closed extraction of STRUCTURAL FACTS from pydap's source (Python `ast`), regenerated on every run
into coq/gen/GenFacts.v.  The property theorems that consume these facts are re-checked against what the code
says now; a fact that cannot be extracted becomes `false` / an empty list, which breaks the obligation.

Facts:
  call_steps         statements of BaseHandler.__call__ in order: (source text, inside the try?, may raise?)
  call_catches_all   the try has a handler for Exception (or a bare except)
  call_handler_builds_error   that handler builds an ErrorResponse
  das_clears_query   `if response == "das": req.query_string = ""` is present
  parse_copies_first BaseHandler.parse starts from copy.copy(self.dataset) and never assigns into self.dataset
  error_template / error_status / error_description   literals of ErrorResponse
"""
import ast
import os
import sys

REPO = os.environ.get("VERIF_REPO", "/repo")
OUT = os.path.join(os.path.dirname(os.path.dirname(os.path.abspath(__file__))), "coq", "gen", "GenFacts.v")

BENIGN_CALLS = {"Request", "environ.get"}


def coq_string(s):
    out = []
    for ch in s:
        if ch == '"':
            out.append('""')
        elif 32 <= ord(ch) < 127:
            out.append(ch)
        elif ch == "\n":
            out.append('" ++ nl ++ "')
        else:
            out.append("?")
    return '("' + "".join(out) + '")%string'


def call_name(node):
    f = node.func
    if isinstance(f, ast.Name):
        return f.id
    if isinstance(f, ast.Attribute) and isinstance(f.value, ast.Name):
        return f.value.id + "." + f.attr
    return "<expr>"


def may_raise(stmt):
    for n in ast.walk(stmt):
        if isinstance(n, ast.Call) and call_name(n) not in BENIGN_CALLS:
            return True
        if isinstance(n, (ast.Subscript, ast.Raise, ast.Assert)):
            return True
        if isinstance(n, ast.Assign) and any(isinstance(t, (ast.Tuple, ast.List)) for t in n.targets):
            return True
    return False


def find_method(tree, cls, name):
    for c in tree.body:
        if isinstance(c, ast.ClassDef) and c.name == cls:
            for f in c.body:
                if isinstance(f, ast.FunctionDef) and f.name == name:
                    return f
    return None


def handler_facts(src):
    tree = ast.parse(src)
    call = find_method(tree, "BaseHandler", "__call__")
    steps, catches_all, builds_error, das = [], False, False, False
    if call is None:
        return None
    body = [s for s in call.body if not (isinstance(s, ast.Expr) and isinstance(s.value, ast.Constant))]
    ntry = 0
    for st in body:
        if isinstance(st, ast.Try):
            ntry += 1
            for inner in st.body:
                steps.append((ast.unparse(inner).split("\n")[0][:70], True, may_raise(inner)))
            for h in st.handlers:
                if h.type is None or (isinstance(h.type, ast.Name) and h.type.id in ("Exception", "BaseException")):
                    catches_all = True
                    builds_error = any(isinstance(n, ast.Call) and call_name(n) == "ErrorResponse" for n in ast.walk(h))
            if st.finalbody or st.orelse:
                return None
        else:
            steps.append((ast.unparse(st).split("\n")[0][:70], False, may_raise(st)))
    if ntry != 1:
        return None
    for n in ast.walk(call):
        if isinstance(n, ast.If) and isinstance(n.test, ast.Compare) and isinstance(n.test.left, ast.Name) \
                and n.test.left.id == "response" and len(n.test.comparators) == 1 \
                and isinstance(n.test.comparators[0], ast.Constant) and n.test.comparators[0].value == "das":
            for b in n.body:
                if isinstance(b, ast.Assign) and ast.unparse(b.targets[0]) == "req.query_string" \
                        and isinstance(b.value, ast.Constant) and b.value.value == "":
                    das = True
    parse = find_method(tree, "BaseHandler", "parse")
    copies_first = False
    if parse is not None:
        assigns = [n for n in ast.walk(parse) if isinstance(n, (ast.Assign, ast.AugAssign))]
        first_ds = None
        writes_self = False
        for a in assigns:
            targets = a.targets if isinstance(a, ast.Assign) else [a.target]
            for t in targets:
                txt = ast.unparse(t)
                if txt.startswith("self.dataset"):
                    writes_self = True
                if txt == "dataset" and first_ds is None:
                    first_ds = ast.unparse(a.value)
        copies_first = (first_ds == "copy.copy(self.dataset)") and not writes_self
    return steps, catches_all, builds_error, das, copies_first


def error_facts(src):
    tree = ast.parse(src)
    tpl = status = desc = None
    for n in ast.walk(tree):
        if isinstance(n, ast.Constant) and isinstance(n.value, str):
            if n.value.startswith("Error {{"):
                tpl = n.value
            if n.value.startswith("500"):
                status = n.value
            if n.value == "OPeNDAP_error":
                desc = n.value
    return tpl, status, desc


def response_facts(repo):
    """C06: every data-bearing response renders dds(self.dataset) first, then its own part of the SAME self.dataset;
    BaseHandler.__call__ hands the response the dataset built from the (possibly cleared) query"""
    out = {"dds_iter": False, "dods_iter": False, "ascii_iter": False, "call_one_dataset": False}

    def iter_shape(path, cls):
        tree = ast.parse(open(os.path.join(repo, path)).read())
        f = find_method(tree, cls, "__iter__")
        if f is None:
            return None
        body = [st for st in f.body if not (isinstance(st, ast.Expr) and isinstance(st.value, ast.Constant) and isinstance(st.value.value, str))]
        shape = []
        for st in body:
            if isinstance(st, ast.For) and isinstance(st.iter, ast.Call) and isinstance(st.iter.func, ast.Name) \
                    and len(st.iter.args) == 1 and ast.unparse(st.iter.args[0]) == "self.dataset" and not st.iter.keywords \
                    and len(st.body) == 1 and isinstance(st.body[0], ast.Expr) and isinstance(st.body[0].value, ast.Yield):
                shape.append("for:" + st.iter.func.id)
            elif isinstance(st, ast.Expr) and isinstance(st.value, ast.Yield):
                shape.append("yield")
            else:
                shape.append("other")
        return shape
    try:
        out["dds_iter"] = iter_shape("src/pydap/responses/dds.py", "DDSResponse") == ["for:dds"]
        out["dods_iter"] = iter_shape("src/pydap/responses/dods.py", "DODSResponse") == ["for:dds", "yield", "for:dods"]
        out["ascii_iter"] = iter_shape("src/pydap/responses/ascii.py", "ASCIIResponse") == ["for:dds", "yield", "for:ascii"]
        tree = ast.parse(open(os.path.join(repo, "src/pydap/handlers/lib.py")).read())
        call = find_method(tree, "BaseHandler", "__call__")
        txt = [ast.unparse(n) for n in ast.walk(call) if isinstance(n, ast.Assign)]
        has_parse = any(t.startswith("dataset = self.parse(projection, selection") for t in txt)
        has_ce = any(t == "projection, selection = parse_ce(req.query_string)" for t in txt)
        has_app = any(t == "app = self.responses[response](dataset)" for t in txt)
        n_ds = sum(1 for t in txt if t.startswith("dataset ="))
        out["call_one_dataset"] = has_parse and has_ce and has_app and n_ds == 1
    except Exception:
        pass
    return out


def isolation_facts(repo):
    """C13: the handler never assigns into self.dataset; the request path keeps no module-level mutable state
    (no global / nonlocal statement, no store into a module-level container from inside a function);
    StructureType.__copy__ clones its children, BaseType.__copy__ builds a new object"""
    out = {"no_self_dataset_writes": False, "no_module_state": False, "copy_clones": False}
    try:
        tree = ast.parse(open(os.path.join(repo, "src/pydap/handlers/lib.py")).read())
        ok = True
        for c in tree.body:
            if isinstance(c, ast.ClassDef) and c.name == "BaseHandler":
                for f in c.body:
                    if isinstance(f, ast.FunctionDef) and f.name != "__init__":
                        for n in ast.walk(f):
                            targets = []
                            if isinstance(n, ast.Assign):
                                targets = n.targets
                            elif isinstance(n, (ast.AugAssign, ast.AnnAssign)):
                                targets = [n.target]
                            elif isinstance(n, ast.Delete):
                                targets = n.targets
                            for t in targets:
                                if ast.unparse(t).startswith("self.dataset"):
                                    ok = False
        out["no_self_dataset_writes"] = ok
        files = ["src/pydap/handlers/lib.py", "src/pydap/responses/dods.py", "src/pydap/responses/dds.py", "src/pydap/responses/das.py",
                 "src/pydap/responses/ascii.py", "src/pydap/responses/lib.py", "src/pydap/wsgi/ssf.py", "src/pydap/wsgi/functions.py",
                 "src/pydap/parsers/__init__.py"]
        ok = True
        for fn in files:
            tree = ast.parse(open(os.path.join(repo, fn)).read())
            module_names = set()
            for st in tree.body:
                if isinstance(st, ast.Assign):
                    for t in st.targets:
                        if isinstance(t, ast.Name):
                            module_names.add(t.id)
            for f in ast.walk(tree):
                if isinstance(f, (ast.FunctionDef, ast.Lambda)):
                    for n in ast.walk(f):
                        if isinstance(n, (ast.Global, ast.Nonlocal)):
                            ok = False
                        targets = []
                        if isinstance(n, ast.Assign):
                            targets = n.targets
                        elif isinstance(n, ast.AugAssign):
                            targets = [n.target]
                        for t in targets:
                            base = t
                            while isinstance(base, (ast.Subscript, ast.Attribute)):
                                base = base.value
                            if isinstance(t, (ast.Subscript, ast.Attribute)) and isinstance(base, ast.Name) and base.id in module_names:
                                ok = False
                        if isinstance(n, ast.Call) and isinstance(n.func, ast.Attribute) and isinstance(n.func.value, ast.Name) \
                                and n.func.value.id in module_names and n.func.attr in ("append", "update", "add", "pop", "clear",
                                                                                        "extend", "setdefault", "insert", "remove"):
                            ok = False
        out["no_module_state"] = ok
        tree = ast.parse(open(os.path.join(repo, "src/pydap/model.py")).read())
        sc = find_method(tree, "StructureType", "__copy__")
        bc = find_method(tree, "BaseType", "__copy__")
        s_ok = sc is not None and any(isinstance(n, ast.Call) and ast.unparse(n.func) == "copy.copy" for n in ast.walk(sc)) \
            and any(isinstance(n, ast.Call) and ast.unparse(n.func) in ("type(self)", "self.__class__", "self.__shallowcopy__")
                    for n in ast.walk(sc))
        b_ok = bc is not None and any(isinstance(n, ast.Call) and ast.unparse(n.func) in ("type(self)", "self.__class__", "BaseType")
                                      for n in ast.walk(bc))
        out["copy_clones"] = bool(s_ok and b_ok)
    except Exception:
        pass
    return out


SESSION_CALLEES = {"SequenceProxy", "BaseProxyDap2", "BaseProxyDap4", "ServerFunction", "ServerFunctionResult",
                   "DAPHandler", "open_dods_url", "GET", "self.__class__", "Functions"}


def session_facts(path):
    """every construction of a proxy / every request made on behalf of a dataset passes a session on"""
    out = []
    tree = ast.parse(open(path).read())
    for n in ast.walk(tree):
        if isinstance(n, ast.Call):
            name = call_name(n)
            if name not in SESSION_CALLEES:
                continue
            passed = False
            for kw in n.keywords:
                if kw.arg == "session" and ast.unparse(kw.value).split(".")[-1] == "session":
                    passed = True
            for a in n.args:
                if ast.unparse(a).split(".")[-1] == "session":
                    passed = True
            out.append(("%s:%d %s" % (os.path.basename(path), n.lineno, name), passed))
    return out


def main():
    lines = ["(* GENERATED by tools/gen_facts.py from %s - do not edit *)" % "src/pydap",
             "From PydapV Require Import Base Handler.", "Open Scope string_scope.", ""]
    try:
        hf = handler_facts(open(os.path.join(REPO, "src/pydap/handlers/lib.py")).read())
    except Exception:
        hf = None
    if hf is None:
        lines += ["Definition call_steps : list step_info := [].", "Definition call_catches_all := false.",
                  "Definition call_handler_builds_error := false.", "Definition das_clears_query := false.",
                  "Definition parse_copies_first := false.", "Definition handler_facts_extracted := false."]
    else:
        steps, ca, be, das, cf = hf
        lines.append("Definition call_steps : list step_info := [")
        lines.append(";\n".join("  mkStep %s %s %s" % (coq_string(t), str(i).lower(), str(m).lower()) for t, i, m in steps))
        lines.append("].")
        lines.append("Definition call_catches_all := %s." % str(ca).lower())
        lines.append("Definition call_handler_builds_error := %s." % str(be).lower())
        lines.append("Definition das_clears_query := %s." % str(das).lower())
        lines.append("Definition parse_copies_first := %s." % str(cf).lower())
        lines.append("Definition handler_facts_extracted := true.")
    try:
        tpl, status, desc = error_facts(open(os.path.join(REPO, "src/pydap/responses/error.py")).read())
    except Exception:
        tpl = status = desc = None
    lines.append("Definition error_template : string := %s." % coq_string(tpl or ""))
    lines.append("Definition error_status : string := %s." % coq_string(status or ""))
    lines.append("Definition error_description : string := %s." % coq_string(desc or ""))
    try:
        sf = session_facts(os.path.join(REPO, "src/pydap/handlers/dap.py")) + session_facts(os.path.join(REPO, "src/pydap/client.py"))
    except Exception:
        sf = [("extraction failed", False)]
    lines.append("Definition session_forwarding : list (string * bool) := [")
    lines.append(";\n".join("  (%s, %s)" % (coq_string(t), str(b).lower()) for t, b in sf))
    lines.append("].")
    rf = response_facts(REPO)
    for k in ("dds_iter", "dods_iter", "ascii_iter", "call_one_dataset"):
        lines.append("Definition fact_%s := %s." % (k, str(rf[k]).lower()))
    isf = isolation_facts(REPO)
    for k in ("no_self_dataset_writes", "no_module_state", "copy_clones"):
        lines.append("Definition fact_%s := %s." % (k, str(isf[k]).lower()))
    text = "\n".join(lines) + "\n"
    os.makedirs(os.path.dirname(OUT), exist_ok=True)
    old = open(OUT).read() if os.path.exists(OUT) else None
    if old != text:
        open(OUT, "w").write(text)
    return 0


if __name__ == "__main__":
    sys.exit(main())
