#!/usr/bin/env python3
"""Writes /verif/MANIFEST.json from the table below (kept in one place so it stays valid)."""
import json
import os

HERE = os.path.dirname(os.path.dirname(os.path.abspath(__file__)))

TB = ("Trusted: Coq 8.16.1 kernel/coqc incl. vm_compute (no native_compute); the hand-written Gallina model, tied to "
      "/repo on every run by the correspondence check (harness generators, canonicalisation, Coq-literal emission); "
      "CPython/numpy of /venv. Axioms: see Print Assumptions output copied into the evidence file. ")

CHECKS = {
    "C03": dict(
        text="Machine-checked proof (Coq) for all axis lengths, ranks, bounds and strides that the model of fix_slice / "
             "combine_slices / hyperslab / parse_hyperslab preserves the numpy selection (3 laws, closed under the global "
             "context); the model is compared with the four Python functions on the whole enumerated one-axis scope of the "
             "property plus seeded tuples/large N, the numpy SPEC is compared with numpy itself, and the three laws are "
             "also evaluated directly on the implementation against numpy over that scope (failing-input search).",
        note=TB + "Python int() modelled on canonical decimal strings only.",
        technique="Coq proof (lia/nia over Z, induction on lists/strings) + vm_compute model-vs-code correspondence, exhaustive in the property's scope",
        design="7/C03"),
}

CHECKS["C12"] = dict(
    text="Machine-checked proof (Coq): for every operation history of any length over {set, insert copy, delete, copy, "
         "select-by-tuple, set attribute, assign data} on any number of handles the tree invariant (children listed once, "
         "visible keys present, ids = chain of quoted names, id lookup returns the variable) holds, an operation changes only "
         "the handle it edits, copies share data tokens; quoting is idempotent, reversible (no literal escapes) and yields only "
         "legal characters, for all byte strings. The value-level tree model and the quoting model are compared with pydap's "
         "objects after every step of seeded random histories and on all short strings.",
    note=TB + "Names modelled as UTF-8 byte strings; data/attribute values as opaque tokens; nested datasets and "
              "Sequence/Grid sub-selection are outside the model.",
    technique="Coq proof (invariant by induction over operation lists; 256-case finite facts by vm_compute) + vm_compute correspondence on random histories",
    design="7/C12")

CHECKS["C09"] = dict(
    text="Machine-checked proof (Coq): reads through the buffering StreamReader equal strict reads of the concatenated bytes "
         "for every chunking and read sequence (including when they fail); the 'Data:' separator search returns the stream "
         "after the first occurrence for every partition; a DAP4 response cut at any offset fails or decodes to the complete "
         "result. Models compared with pydap on generated chunkings/truncations; every chunk size 1..17 + random partitions "
         "through a re-chunking middleware and every truncation offset of every generated DAP2/DAP4 body are run on the implementation.",
    note=TB + "DAP2 decoder truncation safety rests on the strict reader (theorem) plus the exhaustive-offset runs; "
              "literal-pattern model of re.search.",
    technique="Coq proof (induction over chunk lists with a window invariant; prefix lemmas) + vm_compute correspondence + exhaustive truncation offsets",
    design="7/C09")
CHECKS["C10"] = dict(
    text="Machine-checked proof (Coq): for both byte orders, every DMR length < 2^24, every list of variables of the ten atomic "
         "numeric types with in-range values and EVERY partition of the payload into chunks, pydap's DAP4 unpacking (model) "
         "returns exactly the served values; element codecs round-trip. The model is compared with UNPACKDAP4DATA on responses of "
         "an independent reference server (groups <= 3, shared/anonymous dims, interleaved declarations, chunks > 2^16 bytes), "
         "whose bytes are in turn compared with the Gallina wire-format SPEC.",
    note=TB + "DMR text -> declared variable list is pydap's DMR parser (C11); little-endian host; DAP4 indexing is covered by C02.",
    technique="Coq proof (big/little-endian word round trips, chunk reassembly by induction on the partition) + vm_compute correspondence against a reference DAP4 encoder",
    design="7/C10")

CHECKS["C16"] = dict(
    text="Machine-checked proof (Coq) over an abstract file system: for every layout, root and request path every path the "
         "directory server stats, lists or opens is inside the data directory (component-wise), a path resolving outside is "
         "refused without any access, refusals open/list nothing, and inside routing follows what is on disk. The model "
         "(path normalisation, containment, catalog/exists/splitext chain) is compared with DapServer on generated layouts "
         "with prefix-sibling directories x request paths; an audit hook records every open/listdir/scandir of each request.",
    note=TB + "OS behaviour (os.path, listdir, webob path decoding) as in this sandbox; no symlinks; data directory name not ending in catalog.xml.",
    technique="Coq proof over an abstract file system + vm_compute correspondence on real directory layouts with an audit hook",
    design="7/C16")

CHECKS["C05"] = dict(
    text="Machine-checked proof (Coq): pydap's encoder model (incl. the packed fast path for flat sequences) equals the DAP2/XDR "
         "SPEC for every declaration and value; pydap's decoder model (incl. the fixed-width fast path) returns, from the SPEC "
         "bytes of any well-formed value of any declaration followed by anything, that value and the untouched remainder; the "
         "Content-Length arithmetic equals the encoded length. Both models are compared with pydap (body after 'Data:', decoder "
         "on reference bytes) on generated datasets x constraints; an independent reference encoder is compared with the SPEC; "
         "embedded DDS vs .dds and Content-Length vs body are checked on the implementation.",
    note=TB + "numpy astype between DAP widths as modelled; floats as bit patterns; DDS text -> declaration is pydap's parser (C07); "
              "typeless empty lazy sequences are outside the domain.",
    technique="Coq proof (nested induction over declarations, fuelled record loop, big-endian word round trips) + vm_compute correspondence in both directions",
    design="7/C05")

CHECKS["C01"] = dict(
    text="Machine-checked proof (Coq): server (DDS text, 'Data:' separator, encoder model) composed with any byte-preserving or "
         "reversibly-encoding transport and the client (cut at the first separator, decoder model) returns the served value for "
         "every declaration and well-formed value - no bound on nesting, ranks or record counts. The plumbing is exercised on the "
         "real code: generated datasets served by BaseHandler and read back by the real client through in-process WSGI, a requests "
         "session, a cached session and a saved .dods file, plain and gzip; the theorem's separator hypothesis is evaluated on every DDS. "
         "A variable inside a sequence read on its own (an inner sequence): the client's decoder for such reads (unpack_enclosed) "
         "is proved to read back the encoder's bytes for every declaration, depth and record count, and is run in Coq on the answer "
         "to a request for every inner sequence of the generated datasets.",
    note=TB + "gzip/requests/requests-cache/webob are exercised, not modelled (the theorem quantifies over any decode.encode = id); "
              "codec models are those validated by C05; DDS print/parse is C07.",
    technique="Coq proof (composition of the C05 codec theorems with a leftmost-separator lemma) + end-to-end differential runs over 7 transport configurations",
    design="7/C01")

CHECKS["C02"] = dict(
    text="Machine-checked proof (Coq), for all extents, strides and bounds: per axis the request the client builds (normalise, "
         "compose with the stored URL hyperslab, print) addresses exactly the source elements numpy selects from the pre-sliced "
         "axis and parses back on the server to the same slice when non-empty (composition of the C03 laws). The plumbing is run on "
         "the real code: arrays and grids (output_grid on/off) of rank 1-3 served over DAP2 and by an independent reference DAP4 "
         "server, with and without a strided hyperslab in the URL, indexed with every per-axis form, compared with numpy; the "
         "QUERY_STRING seen by the server is compared with the model's query text. Maps of a sliced grid: the index branch of "
         "GridType.__getitem__ is modelled (GridSel.v) and proved to slice every map a grid still lists - all, some, in any order - "
         "with the item of the axis that bears its name, for every shape and index; the model is run in Coq on narrowed / re-ordered "
         "local and remote grids.",
    note=TB + "Server-side application of the parsed hyperslab is numpy indexing (exercised, not modelled); slice kernels as in C03.",
    technique="Coq proof (composition of the slice-algebra theorems) + differential runs of the real client against numpy over DAP2 and a reference DAP4 server",
    design="7/C02")

CHECKS["C15"] = dict(
    text="Machine-checked proof (Coq): if every statement of BaseHandler.__call__ that may raise lies inside a try that catches "
         "everything, no behaviour of those statements makes the call raise (and conversely one raising statement outside lets an "
         "exception out); the premise is discharged on the statement list extracted from the current source on every run, so "
         "moving a statement out of the try breaks a named obligation; the error response literals from the source format to a "
         "DAP2 error document. Requests from a CE grammar with injected faults are sent to plain and gzip handlers; outcome class is "
         "checked and every 200 body is read to its end.",
    note=TB + "Translator tools/gen_facts.py (Python ast) is trusted for the statement list and its syntactic may-raise "
              "over-approximation; lazily raised exceptions during body iteration are outside __call__ and are covered by the runs "
              "(one known finding: empty lazy sequences).",
    technique="Coq proof over a statement list regenerated from the source (fail-closed ast extraction) + fault-injecting request grammar",
    design="7/C15")

CHECKS["C17"] = dict(
    text="Machine-checked proof (Coq): for every flat table and every chain (any length, order, repetition) of filters, column "
         "selections, child selections, record indices and slices on a lazy row stream, iteration yields the constraint normal "
         "form BY COLUMN NAME - all filters on the source rows, the finally selected columns in request order, then the slices in "
         "order - and a step leaves its source untouched. The model is compared with IterData on all chains up to a length over a "
         "9-operation alphabet plus seeded longer chains; every intermediate stream is iterated before/after later steps and twice; "
         "one nested-sequence level is checked against a by-name reference.",
    note=TB + "Cells are integers in the Gallina model; nested sequences are decided by the harness reference only.",
    technique="Coq proof (invariant over operation lists: row layout = visible column names) + vm_compute correspondence, exhaustive over short chains",
    design="7/C17")
CHECKS["C04"] = dict(
    text="Machine-checked proof (Coq): the server's constraint pipeline (selection clauses, column projection, record range) on the "
         "lazy-stream model equals the reference filter (source order, request order), and the order in which a client stacks the "
         "lazy operators is irrelevant (corollaries of the C17 normal form). Generated tables (Int32/Float64/String) x constraints x "
         "backends {numpy structured array, IterData, CSV file} x entries {raw URL, open_url(url?ce), client operators in shuffled "
         "order} are run on the real code against an independent reference filter; integer cases also against the Gallina pipeline.",
    note=TB + "One known finding (lazy backend whose constraint selects no record raises: no declared column types).",
    technique="Coq corollaries of the C17 theorem + differential runs over 3 backends x 3 entries against a reference filter",
    design="7/C04")

CHECKS["C14"] = dict(
    text="Machine-checked proof (Coq): a derived remote sequence - any chain of column selections, conditions, slices, indices and "
         "child selections in any order - requests from the server exactly the constraint normal form of its operations (the data a "
         "fresh client or a lazy stream applying the same selection reads); client-side composition of record slices equals slicing "
         "in turn. In the value-level proxy model a derivation cannot touch earlier objects; that is what the histories test on the "
         "real objects: after every step of generated derive/read histories every earlier object is re-read and compared with its "
         "first read and with the by-name reference; each request is compared with the model's request.",
    note=TB + "Server side of a request = reference filter (C04), exercised through BaseHandler over a recording transport.",
    technique="Coq proof (refinement of the client proxy to the C17 normal form, slice-composition law from C03) + history-based differential runs",
    design="7/C14")
CHECKS["C18"] = dict(
    text="Machine-checked proof (Coq): every proxy derived through any chain of operations sends its requests through the session "
         "of its origin; on the current source every construction of a proxy / function proxy and every GET on behalf of a dataset "
         "passes a session on (facts re-extracted from the source on every run); the cache-key function gives equal keys only for the "
         "same request or for the same declared shared constraint under the declared base (by path component) on the same host. "
         "C14's histories are replayed over plain / cached / consolidated sessions behind a recording adapter with a new-session "
         "sentinel, plus function-result and DAP4 reads, cached-vs-plain reads and generated URL pairs for the key relation.",
    note=TB + "Session forwarding facts are syntactic (gen_facts.py); requests-cache's own key modelled as the normalised URL; Earthdata branch not modelled.",
    technique="Coq proof (invariant over proxy operations; premise on facts regenerated from the source; cache-key case analysis) + recording transport with session sentinel",
    design="7/C18")

CHECKS["C07"] = dict(
    text="Machine-checked proof (Coq): for EVERY dataset tree (any depth, width, rank, name length) whose names are in quoted form, "
         "the DDS parser model applied to the DDS printer model returns exactly the declared tree (kinds, names, order, element types, "
         "printed shapes and dimension names); printing the parsed tree reproduces the text exactly when Sequence members are scalars, "
         "and provably not otherwise (refutation witness = known finding); a DDS text in ANY layout of the grammar (free white space after "
         "every token, keywords and type words in any letter case, Url / Int / UInt, named or anonymous dimensions with any decimal "
         "spelling) parses to exactly the dataset it declares. Printer and parser models are compared with responses/dds.py and parsers/dds.py on generated "
         "trees, reference-rendered foreign-style texts (Url, anonymous dims, mixed-case keywords, free layout) and mutated texts; "
         "the parsed trees are also compared with the abstract specs directly.",
    note=TB + "ASCII texts (Python's Unicode-aware \\w, \\d, lstrip modelled by their ASCII restrictions); numpy dtype char -> DAP2 type "
              "through an independent table in the harness; names starting with 'dap4' excluded; fuelled parser model, fuel shown sufficient.",
    technique="Coq proof (recursive-descent parser inverts the printer: induction over the nested tree with token-class lemmas; 256-case character facts by vm_compute) + vm_compute correspondence on generated trees and texts",
    design="7/C07")

CHECKS["C08"] = dict(
    text="Machine-checked proof (Coq): for EVERY attribute tree (any nesting, width, number of values; strings without double quote "
         "and backslash incl. empty, blanks, ; , { }; number tokens) the character-level model of DASParser applied to the model of "
         "das()/build_attributes returns the tree; for every dataset tree (any depth and width, distinct names) add_attributes applied to "
         "the DAS of the dataset gives every variable exactly its own attributes, and the text round trip composes with it "
         "(served, parsed, re-attached). Printer, parser and the model of add_attributes (flat id, nested id, hand-back of leaves, "
         "NC_GLOBAL/DODS_EXTRA flattening, globals) are compared with "
         "pydap on generated datasets, on (variable tree, attribute dict) pairs with opaque leaves and on reference-rendered "
         "foreign DAS; a real client (open_url on an in-process handler) is compared with the served attributes to six digits.",
    note=TB + "Numbers are DAS tokens in the model: '%.6g' and ast.literal_eval are outside it (oracle only). The placement theorems cover served DAS (incl. NC_GLOBAL / "
              "DODS_EXTRA flattening); foreign flat-id layouts and name collisions are compared, not proved. ASCII; attribute names are identifiers.",
    technique="Coq proof (character-level parser inverts the printer: induction over the nested attribute tree, regexp alternatives as total functions; placement: reverse-walk over a nested dictionary with path lookup / removal lemmas) + vm_compute correspondence incl. the placement algorithm + end-to-end client oracle",
    design="7/C08")

CHECKS["C11"] = dict(
    text="Machine-checked proof (Coq): for EVERY DMR document rendered from an abstract spec (groups nested to any depth, declarations "
         "interleaved in any order, dimensions at any level, named / unnamed / mixed Dim references, attributes in the three value "
         "syntaxes, Maps) whose fully qualified names are distinct and whose references resolve, the model of pydap.parsers.dmr returns "
         "exactly the declared variables: fully qualified name, type, shape resolved in declaration order, fully qualified dimension "
         "names, maps, group path, attributes. The model is compared with dmr_to_dataset on documents rendered by an independent "
         "generator and on DMRs emitted by pydap's DMR response; the parsed datasets are compared with the specs directly.",
    note=TB + "xml.etree.ElementTree is outside the model (the harness hands the model the element tree of the same text); attribute value "
              "conversion and the placement inside DatasetType are covered by the oracle only; Structure/Sequence members not modelled.",
    technique="Coq proof (two collection passes over a nested element tree proved equal to the spec-level listings under no-duplicate keys; string-level name resolution via split/join lemmas) + vm_compute correspondence on generated and served DMRs",
    design="7/C11")

CHECKS["C06"] = dict(
    text="Machine-checked proof (Coq): on facts re-extracted from the source on every run (each data-bearing response renders "
         "dds(self.dataset) first and its own part from the same dataset; BaseHandler.__call__ builds one dataset per request; a DAS "
         "request drops the query) the DDS, data and ASCII responses of one query carry the same DDS text and fail together, and the DAS "
         "is independent of the constraint; the ASCII layout prints, for every shape, each value of the flat data exactly once, in "
         "order, next to the multi-index whose C-order offset is its position; one line per record for sequences. pydap's ASCII body is "
         "compared with the layout model on generated datasets x constraints; DDS-prefix, reference XDR data, an independent ASCII reader "
         "and DAS independence are checked on the implementation.",
    note=TB + "Facts are syntactic (tools/gen_facts.py). Number tokens ('%.6g') come from a reference encoder; nested-sequence ASCII layout "
              "is not modelled.",
    technique="Coq proof (premises discharged on facts regenerated from the source; mixed-radix index theorem for ndindex by induction over the shape) + vm_compute correspondence of whole ASCII bodies",
    design="7/C06")

CHECKS["C13"] = dict(
    text="PARTIAL. Machine-checked proof (Coq): request scripts whose steps read the shared dataset and write only request-owned state "
         "cannot influence one another - for every number of requests, every script length and every interleaving the final (and every "
         "intermediate) state of a request is the one it computes alone; a history of requests leaves the dataset unchanged and answers "
         "each request as a fresh server would. That pydap's handler has this shape is tied by structural facts re-extracted from the "
         "source on every run (parse copies first, no store into self.dataset, no module-level mutable state on the request path, "
         "__copy__ clones) and by a dynamic check: request histories against one application object and 2-3 requests under a "
         "deterministic scheduler switching threads at pydap call / line events, responses compared byte for byte with sequential "
         "answers, deep snapshots of the served dataset before and after.",
    note=TB + "The shape premise is not proved of the Python code (facts are syntactic, the dynamic check samples schedules). True "
              "parallelism, memory visibility, the GIL and C-level races inside numpy are runtime behaviour the model cannot exhibit.",
    technique="Coq proof (non-interference of read-only-shared scripts by induction over schedules) on premises regenerated from the source + deterministic thread-schedule exploration and request histories on the implementation",
    design="7/C13", level="proof")

CHECKS["C19"] = dict(
    text="Machine-checked proof (Coq): for every call tree (any nesting depth and argument count) the text built by the client's "
         "function proxy is read back by the server's FUNCTION regexp / top-level-comma tokenizer / recursive parse as exactly that "
         "tree; a request without an opening parenthesis is never intercepted and a relational clause on a variable is never taken "
         "for a call; mean() removes exactly the axis from shape / dims / maps; bounds() keeps exactly the records inside every closed "
         "interval (min = max meaning equality), in order. The models are compared with pydap (proxy ids, call trees seen by a spy "
         "function, interception, bounds rows, mean dims); responses with and without the middleware are compared byte for byte; mean "
         "results are compared with exact rational means, bounds results with a reference filter on numpy and lazy sequences; proxy "
         "results with raw requests.",
    note=TB + "numpy.mean and float comparison are outside the model (oracle to 1e-9 relative). bounds(): integer-valued cells, T axis not "
              "exercised. Call arguments without comma / parenthesis.",
    technique="Coq proof (printer/parser inverse for nested call expressions with a depth-counting tokenizer; list lemmas for axis removal and filter composition) + vm_compute correspondence via spy functions + exact-rational oracle for mean",
    design="7/C19")

CHECKS["C20"] = dict(
    text="PARTIAL. Machine-checked proof (Coq) of the naming logic of the NetCDF handler: for every scope chain (any nesting) the walk "
         "stops at the nearest enclosing group that declares the dimension name, and that declaration gives the size; the rule used "
         "before the repair is refuted by a concrete file layout. The dimension names the handler gives every variable of generated "
         "NetCDF4 files (groups to depth 2, shadowed names in nested and sibling groups) are compared with the model. Everything "
         "else is a direct comparison on the implementation: dataset tree, types, shapes, attributes (scale_factor, add_offset, "
         "_FillValue kept, no scaling), raw values and decoded .dods responses for random hyperslabs against netCDF4 reads; CSV files "
         "(quoted / numeric / empty cells, 0-7 rows, JSON side-car) against the rows written under C04-style constraints.",
    note=TB + "The netCDF4 and csv libraries, numpy's Arrayterator and value fidelity are outside the model; unlimited dimensions are not "
              "generated. Header-only CSV files are a listed known finding.",
    technique="Coq proof (nearest-enclosing-scope walk over arbitrary scope chains; refutation witness by vm_compute) + vm_compute correspondence of dimension names + library-read oracle on generated NetCDF4 / CSV files",
    design="7/C20")

NOT_YET = {
}


def main():
    props = [json.loads(l)["id"] for l in open(os.path.join(HERE, "properties.jsonl"))]
    checks = []
    for pid in props:
        if pid not in CHECKS:
            continue
        c = CHECKS[pid]
        checks.append({
            "property_id": pid,
            "quick_cmd": "./check %s --tier quick" % pid,
            "thorough_cmd": "./check %s --tier thorough" % pid,
            "evidence_file": "/verif/evidence/%s.json" % pid,
            "replay_cmd_template": "./check %s --replay {path}" % pid,
            "engine": "coq+correspondence",
            "level_claimed": {"category": "proof", "text": c["text"], "design_ref": c["design"]},
            "level_note": c["note"],
            "technique": c["technique"],
        })
    na = [{"property_id": p, "reason": NOT_YET.get(p, "no check built yet in this round (planned, see DESIGN.md section 7); not claimed")}
          for p in props if p not in CHECKS]
    m = {
        "version": 1,
        "setup_cmd": "./setup.sh",
        "hooks": {
            "guard": "PYDAP_VERIF",
            "enable": "no hooks in /repo: checks observe pydap from outside (PYTHONPATH=$VERIF_REPO/src, default /repo/src)",
            "baseline_off_cmd": "cd /repo && /venv/bin/python -m pytest -ra -q -p no:cacheprovider --timeout=900 --continue-on-collection-errors",
            "source_commits": [],
            "add_only": True,
        },
        "engines": [{"name": "coq+correspondence", "path": "/verif/coq, /verif/harness",
                     "serves_properties": [c["property_id"] for c in checks],
                     "kind_free_text": "Coq 8.16.1 development (model, proofs, property theorems) + Python harness running the real "
                                       "pydap code and the Gallina model (vm_compute) on the same inputs"}],
        "checks": checks,
        "not_applicable": na,
        "notes": "One entry point: ./check <id> --tier quick|thorough. Fixes of genuine defects are 'fix:' commits in /repo, "
                 "listed in known_findings.json with status fixed.",
    }
    with open(os.path.join(HERE, "MANIFEST.json"), "w") as f:
        json.dump(m, f, indent=1)
        f.write("\n")


if __name__ == "__main__":
    main()
