#!/bin/bash
# usage: tools/reconfirm_seed.sh <seed-id>  - stored seed: demo passes on HEAD, fails with patch.diff, suite 220 passed with the patch
id="$1"; d="/verif/seeded/$id"
wt="$(mktemp -d /tmp/verif_seed.XXXXXX)"; rmdir "$wt"
git -C /repo worktree add -q --detach "$wt" HEAD >/dev/null 2>&1 || exit 2
trap 'git -C /repo worktree remove --force "$wt" >/dev/null 2>&1; rm -rf "$wt"' EXIT
run_demo() { ( cd "$d" && PYTHONPATH="$wt/src" timeout 600 /venv/bin/python -W ignore demo.py >/dev/null 2>&1 ); echo $?; }
before=$(run_demo)
( cd "$wt" && git apply "$d/patch.diff" ) || { echo "$id: patch does not apply"; exit 2; }
after=$(run_demo)
suite=$( cd "$wt" && PYTHONPATH="$wt/src" /venv/bin/python -m pytest -q -p no:cacheprovider --timeout=900 --continue-on-collection-errors 2>&1 | tail -1 )
passed=$(echo "$suite" | grep -o '[0-9]* passed' | grep -o '[0-9]*')
if [ "$before" = 0 ] && [ "$after" != 0 ] && [ "$passed" = 220 ]; then echo "RECONFIRMED $id"; else echo "NOT RECONFIRMED $id: before=$before after=$after suite=$suite"; fi
