#!/usr/bin/env python3
"""usage: tools/prep_mutants.py Cxx [Cxx ...]  - for each property: a scratch worktree /tmp/mut_<id> of /repo HEAD and /tmp/out_<id>/
with property.txt (the property's text and anchors only) and prompt.txt (tools/mutant_prompt.txt with the list of changes already tried)"""
import glob, json, os, subprocess, sys
props = {json.loads(l)["id"]: json.loads(l) for l in open("/verif/properties.jsonl")}
tmpl = open("/verif/tools/mutant_prompt.txt").read()
for pid in sys.argv[1:]:
    wt, out = "/tmp/mut_" + pid, "/tmp/out_" + pid
    subprocess.run(["git", "-C", "/repo", "worktree", "remove", "--force", wt], capture_output=True)
    subprocess.run(["rm", "-rf", wt, out])
    subprocess.run(["git", "-C", "/repo", "worktree", "add", "-q", "--detach", wt, "HEAD"], check=True, capture_output=True)
    os.makedirs(out)
    p = props[pid]
    with open(out + "/property.txt", "w") as f:
        f.write("%s: %s\n\n%s\n\nQuantifier: %s\n\nWhy tests cannot settle it: %s\n\nAnchors:\n%s\n" % (
            p["id"], p["title"], p["statement"], p["quantifier"]["text"], p["why_tests_cant"], json.dumps(p["anchors"], indent=1)))
    tried = []
    for m in sorted(glob.glob("/verif/seeded/%s-*/meta.json" % pid)):
        tried.append("- " + json.load(open(m))["change"])
    hint = ("Earlier rounds already tried the following changes for this property (all are detected now); do NOT repeat them or close "
            "variants - find different mechanisms, other code paths named in the anchors, other input classes:\n" + "\n".join(tried) +
            "\nDo not use `git stash`. If, while exploring, you notice behaviour of the UNCHANGED code that already violates the property "
            "(a genuine defect), describe it with a minimal reproduction in your final report as well (separately from your two changes).")
    open(out + "/prompt.txt", "w").write(tmpl.replace("@ID@", pid).replace("@HINT@", hint))
    print(pid, "prepared:", len(tried), "earlier changes listed")
