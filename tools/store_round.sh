#!/bin/bash
# usage: tools/store_round.sh <Cxx> <offset>  - /tmp/out_<Cxx>/{patch,demo,notes}{1,2} -> numbered <offset>+1|2, confirmed and stored
id="$1"; off="$2"; src="/tmp/out_$id"
for n in 1 2; do m=$((off+n))
  cp "$src/patch$n.diff" "$src/patch$m.diff"; cp "$src/demo$n.py" "$src/demo$m.py"; cp "$src/notes$n.txt" "$src/notes$m.txt"
  /verif/tools/confirm_seed.sh "$id" "$m" "$src" 2>&1 | grep -v conda
done
