#!/bin/bash
# usage: tools/rebase_seed.sh <seed-id>   - re-applies seeded/<id>/patch.diff to the current /repo HEAD with a 3-way merge in a scratch
# worktree; on a clean merge rewrites patch.diff (the old one is kept as patch.orig.diff the first time); conflicts are left in
# /tmp/rebase_<id> for manual resolution (then: cd there; git diff HEAD > /verif/seeded/<id>/patch.diff; remove the worktree).
id="$1"; d="/verif/seeded/$id"; wt="/tmp/rebase_$id"
git -C /repo worktree remove --force "$wt" >/dev/null 2>&1; rm -rf "$wt"
git -C /repo worktree add -q --detach "$wt" HEAD >/dev/null 2>&1 || exit 2
cd "$wt"
if git apply --3way "$d/patch.diff" >/tmp/rebase_$id.log 2>&1 && ! git diff --name-only --diff-filter=U | grep -q .; then
  [ -f "$d/patch.orig.diff" ] || cp "$d/patch.diff" "$d/patch.orig.diff"
  git diff HEAD > "$d/patch.diff"
  cd /; git -C /repo worktree remove --force "$wt"; rm -f /tmp/rebase_$id.log
  echo "$id rebased"
else
  echo "$id CONFLICT (worktree $wt, log /tmp/rebase_$id.log)"
fi
