#!/bin/bash
# Independent re-check of every compiled property file (and everything it depends on) with coqchk; -o lists the axioms.
cd "$(dirname "$0")/../coq" || exit 2
mods=$(ls props/C*.v | sed 's#props/\(C[0-9]*\)\.v#PydapV.props.\1#')
( ulimit -s unlimited 2>/dev/null; timeout 3000 coqchk -silent -o -Q . PydapV $mods ) > coqchk.log 2>&1
rc=$?
tail -25 coqchk.log
exit $rc
