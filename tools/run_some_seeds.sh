#!/bin/bash
# usage: tools/run_some_seeds.sh <parallelism> <Cxx> [<Cxx> ...]  - like run_all_seeds.sh for the seeds of the named properties only;
# the lines of these seeds in seeded/RESULTS.txt are replaced
cd /verif
P="$1"; shift
one() {
  d="$1"; id="$(basename "$d")"; prop="${id%%-*}"
  if grep -q '"retired"' "$d/meta.json" 2>/dev/null; then echo "$id $prop retired"; return; fi
  out="$(tools/with_patch.sh "$d/patch.diff" "$prop" 2>&1)"
  if echo "$out" | grep -q "patch does not apply"; then echo "$id $prop patch-does-not-apply"
  elif echo "$out" | grep -q "exit=1"; then
    if echo "$out" | grep -q "no-failing-input-found" && ! echo "$out" | grep "VIOLATION" | grep -qv "no-failing-input-found"; then echo "$id $prop caught(no-failing-input-found)"; else echo "$id $prop caught"; fi
  else echo "$id $prop MISSED"; fi
}
export -f one
tmp="$(mktemp)"
for p in "$@"; do ls -d seeded/$p-*/; done | xargs -P "$P" -I{} bash -c 'one {}' | sort > "$tmp"
pat="$(echo "$@" | tr ' ' '|')"
grep -Ev "^($pat)-" seeded/RESULTS.txt > "$tmp.rest"
sort "$tmp" "$tmp.rest" > seeded/RESULTS.txt; rm -f "$tmp" "$tmp.rest"
grep -c caught seeded/RESULTS.txt; grep -v " caught\| retired" seeded/RESULTS.txt
