#!/bin/bash
# usage: tools/confirm_seed.sh <Cxx> <n> <srcdir>   (srcdir holds patch<n>.diff demo<n>.py notes<n>.txt [+ helper files])
# Confirms in a scratch worktree: demo passes without the patch, fails with it, pinned suite still 220 passed.
# On success stores the seed under /verif/seeded/<Cxx>-<n>/.
id="$1"; n="$2"; src="$3"
wt="$(mktemp -d /tmp/verif_seed.XXXXXX)"; rmdir "$wt"
git -C /repo worktree add -q --detach "$wt" HEAD >/dev/null 2>&1 || exit 2
trap 'git -C /repo worktree remove --force "$wt" >/dev/null 2>&1; rm -rf "$wt"' EXIT
run_demo() { ( cd "$src" && PYTHONPATH="$wt/src" timeout 600 /venv/bin/python -W ignore "demo$n.py" >/dev/null 2>&1 ); echo $?; }
before=$(run_demo)
( cd "$wt" && git apply "$src/patch$n.diff" ) || { echo "$id-$n: patch does not apply"; exit 2; }
after=$(run_demo)
suite=$( cd "$wt" && PYTHONPATH="$wt/src" /venv/bin/python -m pytest -q -p no:cacheprovider --timeout=900 --continue-on-collection-errors 2>&1 | tail -1 )
passed=$(echo "$suite" | grep -o '[0-9]* passed' | grep -o '[0-9]*')
echo "$id-$n: demo without patch exit=$before, with patch exit=$after, suite: $suite"
if [ "$before" = 0 ] && [ "$after" != 0 ] && [ "$passed" = 220 ]; then
  d="/verif/seeded/$id-$n"; mkdir -p "$d"
  cp "$src/patch$n.diff" "$d/patch.diff"; cp "$src/demo$n.py" "$d/demo.py"; cp "$src/notes$n.txt" "$d/notes.txt"
  for extra in "$src"/*.py; do case "$(basename "$extra")" in demo*.py) ;; *) cp "$extra" "$d/";; esac; done
  echo "CONFIRMED $id-$n"
else
  echo "NOT CONFIRMED $id-$n"
fi
