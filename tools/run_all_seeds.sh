#!/bin/bash
# usage: tools/run_all_seeds.sh [parallelism]   - runs every stored seed against the check of its property (scratch worktrees),
# writes seeded/RESULTS.txt: "<seed> <check> caught|MISSED|patch-does-not-apply"
cd /verif
P="${1:-6}"
one() {
  d="$1"; id="$(basename "$d")"; prop="${id%%-*}"
  if grep -q '"retired"' "$d/meta.json" 2>/dev/null; then echo "$id $prop retired"; return; fi
  out="$(tools/with_patch.sh "$d/patch.diff" "$prop" 2>&1)"
  if echo "$out" | grep -q "patch does not apply"; then echo "$id $prop patch-does-not-apply"
  elif echo "$out" | grep -q "exit=1"; then
    if echo "$out" | grep -q "no-failing-input-found" && ! echo "$out" | grep "VIOLATION" | grep -qv "no-failing-input-found"; then echo "$id $prop caught(no-failing-input-found)"; else echo "$id $prop caught"; fi
  else echo "$id $prop MISSED"; fi
}
export -f one
ls -d seeded/*/ | xargs -P "$P" -I{} bash -c 'one {}' | sort > seeded/RESULTS.txt
grep -c caught seeded/RESULTS.txt; grep -v " caught\| retired" seeded/RESULTS.txt
